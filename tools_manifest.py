#!/usr/bin/env python3
"""Regenerates MANIFEST.json from the table below (run after adding a check)."""
import json
import os

HERE = os.path.dirname(os.path.abspath(__file__))

NA = {
    "C05": "QuantileLinearRegression is a deterministic IRLS: no schedule, fault point, call history or unpinned entropy in the statement or the code; deciding pinball optimality needs an LP oracle over generated data (property-based testing), which is a different technique.",
    "C06": "KMeansL1L2 is single-threaded and every random draw derives from the documented random_state argument (an input); the consistency of labels/inertia/centres/predict/transform is a pure function of (data, parameters, seed).",
    "C09": "Tree criteria and per-leaf least squares are pure functions of (X, y, w, sample order, start, pos, end) in compiled code; deciding them means enumerating index triples against numpy, not searching schedules or faults.",
    "C10": "DecisionTreeLogisticRegression is a deterministic recursion; agreement of its three traversals is a pure function of the fitted tree and the batch (failing node estimators are covered under C02).",
    "C11": "ExtendedFeatures is a data-independent index recurrence; decided by enumerating (n_features, degree, flags) configurations, no nondeterminism or fault to simulate.",
    "C12": "digitize2tree / tree_structure helpers are deterministic constructions and walks over a given tree; pure functions of their input.",
    "C14": "Traceable vectorizers are a pure function corpus x options -> matrix; no concurrency, I/O, clock or entropy.",
    "C16": "Pipeline introspection/drawing is a pure function of the pipeline object and data schema; the debug recorder's only state is 'last call' and the statement has no concurrency, fault or entropy clause.",
    "C19": "CategoriesToIntegers is a pure frame -> frame mapping; the error path is determined by the input alone.",
    "C20": "Time-series framing is pure index arithmetic on (n, past, delay); nothing to schedule or fail.",
}

CHECKS = {
    "C18": dict(
        category="exploration",
        text="Only non_linear_correlations is addressed (weak fit, stated as such): its single source of nondeterminism, the repeated train_test_split on the process-global RNG with no seed argument, is replaced at the module seam by a simulator-owned splitter that returns legal half/half splits chosen adversarially (sorted, reverse-sorted, first/last halves, interleaved, seeded random) or delegates to the real function under a simulator seed; the taped splits are replayed for the DataFrame call and for a call in which a fit/predict site of the peer model fails. The r2_score_comparable sentence is a pure function and is NOT covered.",
        design_ref="DESIGN.md §4 C18",
        note="Trusted: the split reaches the function only through the module-level name train_test_split; 'its array' is the frame's own array (same memory layout); unit diagonal asserted only for columns that cannot be constant in a training half.",
        technique="deterministic simulation: owned split seam (adversarial + pinned, taped), fault plan on the peer model",
    ),
    "C13": dict(
        category="exploration",
        text="The permutation drawn by PermutationReciprocalTransformer / TransformedTargetClassifier2('permute') is environment entropy (numpy.random.permutation, no seed on that path): the entropy seam forces it to every one of the k! permutations in turn for k <= 4 (quick) / 5 (thorough) -- exhaustive over permutations for those sizes -- and draws adversarially for 6 <= k <= 9, over sampled label sets (int, arbitrary int, str, float with NaN), data and exactly equivariant learners; oracles: transformer round trip, original labels, agreement with the plain classifier where its decision is not a tie, classes_[j] labels column j. The six function names are checked with recording peers; that part has no schedule/fault/entropy dimension and is reported separately.",
        design_ref="DESIGN.md §4 C13",
        note="Trusted: equivariance of 1-NN / GaussianNB / seeded trees away from ties; closest=True path cannot run under numpy 2; integer random_state is an input and only sampled.",
        technique="deterministic simulation: owned entropy seam enumerating the drawn permutation, recording peers, reference = plain classifier",
    ),
    "C01": dict(
        category="exploration",
        text="Seeded search over histories of protocol calls (get_params deep/shallow, set_params of an advertised key to a different value, transplant of another instance's deep parameters, clone, replace-by-clone, fit) on two or three live instances of each of 29 exported classes, against a reference model (flat parameter dict per instance with a frame condition, aliasing through shared nested objects tracked), plus behavioural equality of transplanted instances by fitting clones. No fault, schedule or entropy dimension exists for this property; the simulator contributes generated histories, the uninitialised-memory seam, minimisation and replay.",
        design_ref="DESIGN.md §4 C01",
        note="Trusted: scikit-learn's BaseEstimator.get_params/set_params/clone; string parameters only changed within known legal sets; free keyword parameters of the SkBase family share one key set per run; QuantileMLPRegressor's constructor cannot run under scikit-learn 1.9.",
        technique="deterministic simulation (degenerate: no schedule/fault dimension): generated call histories vs executable dict reference model",
    ),
    "C15": dict(
        category="exploration",
        text="Seeded search over call histories (construct, fit, transform, set_params(model=/method=), clone, refit on other data, fit with the inner estimator failing by fault plan) on SkBaseTransformLearner, SkBaseTransformStacking and TransferTransformer against executable references: independently built and directly fitted models (hstack for stacking), recording peers for what the wrapped models were trained on, and pickle+prediction digests of the original estimator for the frozen / never-modified clauses.",
        design_ref="DESIGN.md §4 C15",
        note="Trusted: wrapped models are recording peers with unchanged signatures; rtol 1e-9; 'chosen method' = last one configured by the user or the wrapper's reported default.",
        technique="deterministic simulation: generated operation histories with injected inner-fit faults vs executable reference models and state digests",
    ),
    "C04": dict(
        category="exploration",
        text="Seeded search over operation histories on one fitted estimator against a reference model (row id -> row of the first full-batch output): sub-batches, permutations, single rows, duplicated rows, repeats, interleaved with restarts that keep only durable state (pickle round trip, clone_with_fitted_parameters) and, for classes with n_jobs, calls executed under drawn thread schedules of the baton scheduler. Every returned row is compared with the reference.",
        design_ref="DESIGN.md §4 C04",
        note="Trusted: rtol 1e-9 for BLAS-backed float outputs, exact for labels/leaf ids; balanced ConstraintKMeans prediction excluded as documented; methods whose full-batch reference call raises are dropped and counted.",
        technique="deterministic simulation: generated operation/restart histories vs executable reference model, seeded thread scheduler for n_jobs calls",
    ),
    "C07": dict(
        category="exploration",
        text="Seeded search over ConstraintKMeans scenarios (all residues n mod k, degenerate geometries, both strategies, kmeans0 on/off, tiny max_iter) with every numpy.random request of the balancing code answered by the simulator -- adversarially (degenerate uniforms, identity/reversed/rotated permutations, range extremes) or from the pinned global RNG -- so that the size guarantee is examined for the draws the code can meet and any failure replays exactly; size, label-range, finite-centre, n_iter and nearest-centre oracles on fit and on plain/balanced predictions of arbitrary batch sizes; seam-call cap as bounded liveness.",
        design_ref="DESIGN.md §4 C07, §3.4",
        note="Trusted: scikit-learn KMeans for the initial clustering; entropy reaches the balancing code only through numpy.random.rand/permutation and check_random_state(None) as seen from mlinsights modules; strategy 'weights' is outside the statement.",
        technique="deterministic simulation: owned entropy seam (adversarial + pinned) over generated scenarios, invariant oracles, step-capped liveness",
    ),
    "C03": dict(
        category="exploration",
        text="Seeded search over call histories fit(A);[predict];fit(B) on one instance against fresh estimators, with the three entropy sources the property quantifies over owned by the simulator: numpy's global seed, the unseeded RandomState() constructor (OS entropy, answered from stream r: taped to be identical for refit-vs-fresh, redrawn for same-seed-same-model) and PYTHONHASHSEED (runs with string labels re-executed in a second interpreter). Bit equality of outputs and fitted attributes.",
        design_ref="DESIGN.md §4 C03, §3.4, §3.5",
        note="Trusted: OS entropy enters mlinsights only through numpy.random.RandomState() without seed (grep-verified for the anchored files); thread schedules excluded here (C08); estimator slots filled with peers.",
        technique="deterministic simulation: owned entropy seam with taped answers, cross-PYTHONHASHSEED re-execution, reference = fresh estimator",
    ),
    "C17": dict(
        category="exploration",
        text="Seeded search over IntervalRegressor scenarios with the numpy.random seam owned by the simulator: every resampling request made from inside the (possibly threaded) fit tasks is logged and answered adversarially (both ends of the requested range forced into every resample) or from the pinned global RNG; oracles on what was requested (support = all n rows, size = round(alpha*n)), on what each recording base regressor received (rows with their own target and weight) and on the aggregation (mean, sorted, min<=mean<=max). Eligibility of every row is decided without statistics.",
        design_ref="DESIGN.md §4 C17, §3.4",
        note="Trusted: the seam sees randint/choice requests of mlinsights.mlmodel.interval_regressor only (other index sources are judged by records); recording peers stand for arbitrary base regressors; distinct rows/targets/weights.",
        technique="deterministic simulation: owned entropy seam (adversarial + pinned), seeded thread scheduler, recording peers",
    ),
    "C02": dict(
        category="fault_enumeration",
        text="Per generated scenario (estimator class x configuration x data x operation history) a dry run lists the fault sites reached by fit and every single site is failed once (exhaustive single-fault enumeration per scenario, pairs in the thorough tier, under drawn thread schedules where the class has n_jobs), every applicable invalid-data kind is tried, or (third mode) the Python-level calls that leave mlinsights during fit are numbered and call k raises a ValueError / RuntimeError / MemoryError / interruption (all k when at most 16 quick / 48 thorough, otherwise that many drawn); after every operation get_params and the caller's arrays are compared with their state before, fit must return self, and the last successful fit must equal, bit for bit, a fresh estimator fitted under the same seed, entropy and taped schedule. Scenarios are sampled; the enumeration within a scenario is complete.",
        design_ref="DESIGN.md §4 C02, §3.6",
        note="Trusted: fault sites are calls on peer estimators (subclasses of real scikit-learn estimators keeping signatures) and, in the foreign-call mode, the Python-level calls from mlinsights into scikit-learn / numpy / the harness made in the caller's thread (raised from a sys.settrace handler, no hook in /repo); failures inside C-implemented numpy functions are reached only through invalid inputs; QuantileMLPRegressor / ARTimeSeriesRegressor / mlbatch / search_rank cannot run here; copy_x=False / copy_X=False exempt from the data oracle.",
        technique="deterministic simulation: single-fault enumeration over peer call sites and over the calls that leave the library (foreign-call fault seam) + invalid-data faults inside operation histories, seeded thread scheduler, reference = fresh estimator",
    ),
    "C08": dict(
        category="exploration",
        text="Seeded search over generated scenarios x thread schedules: each scenario is executed sequentially and under K drawn (n_jobs, scheduler mode, pre-emption granularity) schedules of a deterministic baton-passing scheduler that stands for joblib.Parallel; partition, per-bucket training-record, routing and distribution oracles run after every execution and every threaded result digest must equal the sequential one. A clean batch is evidence, not proof.",
        design_ref="DESIGN.md §4 C08, §3.3",
        note="Trusted: the SimParallel stub's fidelity to joblib's threading backend (self-tested against real joblib), pre-emption only at python line/bytecode boundaries in mlinsights and peer estimators, peers standing for arbitrary local estimators, OS entropy modelled per task index.",
        technique="deterministic simulation: seeded baton scheduler over real threads (sys.settrace pre-emption), entropy seam, recording peer estimators, reference partition model",
    ),
}

PENDING = {'C01': 'claimed in DESIGN.md §4; its check is under construction in this session and not registered yet', 'C03': 'claimed in DESIGN.md §4; its check is under construction in this session and not registered yet', 'C04': 'claimed in DESIGN.md §4; its check is under construction in this session and not registered yet', 'C07': 'claimed in DESIGN.md §4; its check is under construction in this session and not registered yet', 'C13': 'claimed in DESIGN.md §4; its check is under construction in this session and not registered yet', 'C15': 'claimed in DESIGN.md §4; its check is under construction in this session and not registered yet', 'C17': 'claimed in DESIGN.md §4; its check is under construction in this session and not registered yet', 'C18': 'claimed in DESIGN.md §4; its check is under construction in this session and not registered yet'}
# a property moves from PENDING to CHECKS when its check is registered
PENDING = {k: v for k, v in PENDING.items() if k not in CHECKS}


def main():
    checks = []
    for pid in sorted(CHECKS):
        c = CHECKS[pid]
        checks.append(
            {
                "property_id": pid,
                "quick_cmd": "./check %s --tier quick" % pid,
                "thorough_cmd": "./check %s --tier thorough" % pid,
                "evidence_file": "evidence/%s.json" % pid,
                "replay_cmd_template": "./check %s --replay {path}" % pid,
                "engine": "dsim",
                "level_claimed": {"category": c["category"], "text": c["text"], "design_ref": c["design_ref"]},
                "level_note": c["note"],
                "technique": c["technique"],
            }
        )
    na = [{"property_id": k, "reason": v} for k, v in sorted(NA.items())]
    for k, v in sorted(PENDING.items()):
        na.append({"property_id": k, "reason": v})
    doc = {
        "version": 1,
        "setup_cmd": "./check build",
        "hooks": {
            "guard": "MLINSIGHTS_VERIF",
            "enable": "no hook exists in /repo: every seam is reached from outside (sys.modules['sklearn.utils._joblib'], module globals, constructor arguments, PYTHONHASHSEED); checks set MLINSIGHTS_VERIF=1 in the worker environment for completeness",
            "baseline_off_cmd": "cd /repo && /venv/bin/python -m pytest -ra -q -p no:cacheprovider --timeout=900 --continue-on-collection-errors",
            "source_commits": [],
            "add_only": True,
        },
        "engines": [
            {
                "name": "dsim",
                "path": "dsim/",
                "serves_properties": sorted(CHECKS),
                "kind_free_text": "deterministic simulation with fault injection: one seed -> four recorded choice streams (workload, faults, schedule, entropy); baton-passing scheduler standing for joblib.Parallel; numpy.random / OS-entropy seam; fault-plan-driven peer estimators; greedy stream minimiser; replay files",
            }
        ],
        "checks": checks,
        "not_applicable": sorted(na, key=lambda e: e["property_id"]),
        "notes": "See DESIGN.md. Exit codes: 0 held, 1 VIOLATION, 2 harness error, 3 replay diverged. known_findings.json lists recorded findings and fixed defects.",
    }
    with open(os.path.join(HERE, "MANIFEST.json"), "w") as f:
        json.dump(doc, f, indent=1)
    print("MANIFEST.json: %d checks, %d not applicable" % (len(checks), len(na)))


if __name__ == "__main__":
    main()
