"""C15 -- learner-to-transformer wrappers are transparent.

SkBaseTransformLearner.transform == the chosen method of the *currently
configured* wrapped model (2-D); SkBaseTransformStacking.transform == column
concatenation of its members' outputs; both train the wrapped models exactly
as a direct fit would; TransferTransformer returns the wrapped estimator's
output, a non-trainable transfer never changes the wrapped estimator, and with
copy_estimator the original object is never modified -- over call histories
(fit / transform / set_params / refit / clone), inner failures included.
DESIGN §4 C15.
"""
import pickle

import numpy
from sklearn.base import clone
from sklearn.cluster import KMeans
from sklearn.decomposition import PCA
from sklearn.linear_model import LinearRegression, LogisticRegression
from sklearn.neighbors import KNeighborsRegressor
from sklearn.pipeline import Pipeline
from sklearn.preprocessing import StandardScaler
from sklearn.tree import DecisionTreeClassifier, DecisionTreeRegressor

from dsim import ctx as C
from dsim import entropy as E
from dsim import peers as P
from props import common as U

from mlinsights.mlmodel import TransferTransformer
from mlinsights.sklapi import SkBaseTransformLearner, SkBaseTransformStacking

PROP = "C15"

PLogReg = P.make_peer(LogisticRegression)
PTreeClf = P.make_peer(DecisionTreeClassifier)
PLinReg = P.make_peer(LinearRegression)
PTreeReg = P.make_peer(DecisionTreeRegressor)
PKMeans = P.make_peer(KMeans)
PScaler = P.make_peer(StandardScaler)
PPCA = P.make_peer(PCA)
PKNNReg = P.make_peer(KNeighborsRegressor)


def _flat_weights(dist):
    """A callable-valued option of the wrapped estimator."""
    return numpy.ones_like(dist)


MODELS = {
    "logreg": (lambda: PLogReg(max_iter=60), ("predict", "predict_proba", "decision_function")),
    "logreg-C": (lambda: PLogReg(max_iter=60, C=0.2), ("predict", "predict_proba", "decision_function")),
    "treeclf": (lambda: PTreeClf(max_depth=2, random_state=0), ("predict", "predict_proba")),
    "linreg": (lambda: PLinReg(), ("predict",)),
    # trained on a one-column target (df[["y"]]): the fitted state of the
    # wrapped model has the shapes a direct fit gives
    "linreg-col": (lambda: PLinReg(), ("predict",)),
    # a composite model that receives its fit keywords through **params
    "pipe-linreg": (lambda: Pipeline([("sc", PScaler()), ("reg", PLinReg())]), ("predict",)),
    "treereg": (lambda: PTreeReg(max_depth=2, random_state=0), ("predict",)),
    "kmeans": (lambda: PKMeans(n_clusters=2, n_init=2, random_state=0), ("predict", "transform")),
    "inplace-linreg": (lambda: InPlaceLinReg(), ("predict",)),
    "warmstart-linreg": (lambda: WarmStartLinReg(), ("predict",)),
    # holds a callable parameter: clone_with_fitted_parameters refuses it
    # (RuntimeError), so a copying TransferTransformer cannot be fitted -- and
    # must then leave the estimator alone
    "knn-callable": (lambda: PKNNReg(n_neighbors=2, weights=_flat_weights, algorithm="brute"), ("predict",)),
    "scaler": (lambda: PScaler(), ("transform",)),
    "pca": (lambda: PPCA(n_components=1), ("transform",)),
}


class InPlaceLinReg(PLinReg):
    """A linear model that, like warm-start estimators, updates its fitted
    arrays in place on every further fit instead of allocating new ones."""

    def fit(self, X, y, sample_weight=None):
        old_coef = getattr(self, "coef_", None)
        old_int = getattr(self, "intercept_arr_", None)
        PLinReg.fit(self, X, y, sample_weight)
        new_coef = numpy.asarray(self.coef_, dtype=float)
        if isinstance(old_coef, numpy.ndarray) and old_coef.shape == new_coef.shape and old_coef.flags.writeable:
            old_coef[...] = new_coef
            self.coef_ = old_coef
        icpt = numpy.atleast_1d(numpy.asarray(self.intercept_, dtype=float))
        if isinstance(old_int, numpy.ndarray) and old_int.flags.writeable:
            old_int[...] = icpt
            self.intercept_arr_ = old_int
        else:
            self.intercept_arr_ = icpt.copy()
        return self

    def predict(self, X):
        return numpy.asarray(X) @ numpy.asarray(self.coef_).ravel() + float(self.intercept_arr_[0])


class WarmStartLinReg(PLinReg):
    """A linear model whose fit starts from its previous state (warm start):
    the new coefficients are the average of the old ones and the least-squares
    solution.  Training a copy that lost the pretrained state gives another
    model."""

    def fit(self, X, y, sample_weight=None):
        old = getattr(self, "coef_", None)
        old_i = getattr(self, "intercept_", None)
        PLinReg.fit(self, X, y, sample_weight)
        if old is not None and numpy.shape(old) == numpy.shape(self.coef_):
            self.coef_ = 0.5 * numpy.asarray(old) + 0.5 * self.coef_
            self.intercept_ = 0.5 * old_i + 0.5 * self.intercept_
        return self


# only meaningful inside a TransferTransformer (a wrapper refitting it twice
# would legitimately differ from a reference fitted once)
TRANSFER_ONLY = ("warmstart-linreg", "knn-callable")
LEARNER_ONLY = ("linreg-col", "pipe-linreg")


def _fit_kw(name, data):
    if data["w"] is None or name == "pca":
        return {}
    return {"reg__sample_weight": data["w"]} if name == "pipe-linreg" else {"sample_weight": data["w"]}



def _first_column_twice(X):
    return numpy.asarray(X)[:, :1] * 2.0


def _viol(c, seen, oracle, detail, msg):
    sig = (PROP, oracle) + tuple(str(d) for d in detail)
    if sig in seen:
        return
    seen.add(sig)
    c.violation(PROP, oracle, sig, msg + " | scenario: " + repr(c.scenario))


def _two_d(a):
    a = numpy.asarray(a)
    return a[:, numpy.newaxis] if a.ndim == 1 else a


def _digest(est, Xp, methods):
    """State digest of an estimator: pickled bytes + its outputs on a probe."""
    parts = [C.ahash(pickle.dumps(est))]
    for m in methods:
        if hasattr(est, m):
            try:
                parts.append(C.ahash(numpy.asarray(getattr(est, m)(Xp))))
            except Exception as e:  # noqa: BLE001
                parts.append("raised:" + type(e).__name__)
    return tuple(parts)


def _data(ch, label):
    n = ch.integer("w", 8, 30, "n" + label)
    d = ch.integer("w", 2, 3, "d" + label)
    seed = ch.subseed("w", "data" + label)
    rs = numpy.random.RandomState(seed)
    X = U.unique_rows(rs, n, d)
    score = X[:, 0] + 0.5 * rs.randn(n)
    y = (score > numpy.median(score)).astype(int)
    w = numpy.round(rs.rand(n) + 0.5, 3) if ch.boolean("w", 0.3, "w" + label) else None
    Xp = numpy.vstack([X[:3], rs.randn(3, d)])
    return {"X": X, "y": y, "yr": score, "w": w, "Xp": Xp, "desc": {"n": n, "d": d, "seed": seed, "weights": w is not None}}


class _Sim:
    def __init__(self, c):
        self.c = c
        self.seen = set()
        self.g = c.ch.subseed("r", "global-seed")

    def env(self, fire=()):
        c = self.c
        c.sched_cfg = None
        c.entropy = E.Entropy("pinned")
        kind = c.ch.weighted("f", [("runtime", 3), ("value", 2), ("cancel", 1)], "fault-kind") if fire else "runtime"
        c.fault_plan = P.FaultPlan(fire, kind)
        numpy.random.seed(self.g % (2**32 - 1))

    def viol(self, oracle, detail, msg):
        _viol(self.c, self.seen, oracle, detail, msg)


def _target(name, data):
    if name == "linreg-col":
        return data["yr"].reshape(-1, 1)
    return data["yr"] if name in ("linreg", "treereg", "inplace-linreg", "warmstart-linreg", "knn-callable", "pipe-linreg") else data["y"]


def _reference(sim, name, data, method):
    """Independently built and fitted model; its output on the probe."""
    ref = MODELS[name][0]()
    sim.env()
    kw = _fit_kw(name, data)
    if name in ("scaler", "pca", "kmeans"):
        ref.fit(data["X"], y=_target(name, data), **kw)
    else:
        ref.fit(data["X"], y=_target(name, data), **kw)
    if callable(method):
        return _two_d(method(data["Xp"]))
    return _two_d(getattr(ref, method)(data["Xp"]))


def _check_record(sim, who, model, data, name, kw):
    if name == "pipe-linreg" and hasattr(model, "named_steps"):
        # what a direct fit of the same pipeline hands to its last step
        inner = model.named_steps["reg"]
        ref = MODELS[name][0]()
        sim.env()
        ref.fit(data["X"], _target(name, data), **kw)
        rin = ref.named_steps["reg"]
        same = hasattr(inner, "rec_X_") and numpy.array_equal(inner.rec_X_, rin.rec_X_) and numpy.array_equal(inner.rec_y_, rin.rec_y_)
        same = same and ((inner.rec_w_ is None and rin.rec_w_ is None) or (inner.rec_w_ is not None and rin.rec_w_ is not None and numpy.array_equal(inner.rec_w_, rin.rec_w_)))
        if not same:
            sim.viol("training-data", (who, "fit-keywords-through-params"), "%s: the last step of the wrapped pipeline was not trained as a direct fit with the same keywords trains it (weights received: %r)" % (who, None if not hasattr(inner, "rec_w_") or inner.rec_w_ is None else "yes"))
        sim.c.probe("pipeline_fit_keywords_checked")
        return
    if not hasattr(model, "rec_X_"):
        sim.viol("wrapped-not-fitted", (who,), "%s: the wrapped model was not fitted by fit" % who)
        return
    ok = numpy.array_equal(model.rec_X_, data["X"]) and numpy.array_equal(model.rec_y_, _target(name, data))
    wrec = model.rec_w_
    wexp = kw.get("sample_weight")
    ok = ok and ((wrec is None and wexp is None) or (wrec is not None and wexp is not None and numpy.array_equal(wrec, wexp)))
    if not ok:
        sim.viol("training-data", (who,), "%s: the wrapped model was not trained on exactly the caller's X, y and fit arguments" % who)


# ---------------------------------------------------------------------------
def _run_learner(c, sim):
    ch = c.ch
    name = ch.choice("w", [m for m in sorted(MODELS) if m not in TRANSFER_ONLY], "model")
    methods = MODELS[name][1]
    mchoice = ch.choice("w", [None, "callable"] + list(methods), "method")
    if mchoice is None and name == "pipe-linreg":
        # the default is guessed from the attributes of the class; Pipeline
        # declares transform whatever its last step is (not a method the
        # property lists: the guess is outside its statement)
        mchoice = "predict"
    method = _first_column_twice if mchoice == "callable" else mchoice
    dataA = _data(ch, "A")
    dataB = _data(ch, "B")
    c.scenario.update({"wrapper": "SkBaseTransformLearner", "model": name, "method": mchoice, "A": dataA["desc"], "B": dataB["desc"], "ops": []})
    c.signature = ["learner", name, str(mchoice)]
    model = MODELS[name][0]()
    ok, wr = U.sut(c, "construct", SkBaseTransformLearner, model, method)
    if not ok:
        sim.viol("construct-raised", ("learner", type(wr).__name__), "SkBaseTransformLearner(%s, %r) raised %s" % (name, mchoice, U.short_exc(wr)))
        return
    chosen = method if method is not None else wr.method
    cur_name = name
    data = None
    fitted = False
    nops = ch.integer("w", 3, 9, "nops")
    for k in range(nops):
        kinds = ["fit", "transform", "transform", "set-model", "set-method", "clone", "fit-fail", "transform-reused-buffer", "stack-elsewhere"]
        op = ch.choice("w", kinds, "op")
        if len(c.scenario["ops"]) < 16:
            c.scenario["ops"].append(op)
        if op == "stack-elsewhere":
            # the user also puts this wrapper into a stacking built with
            # another method: building that second object is not a set_params
            # on the wrapper, which keeps returning the method it was given
            others = [m for m in ("predict", "predict_proba", "decision_function", "transform") if m != chosen and m in MODELS[cur_name][1]]
            if not others or callable(chosen):
                continue
            other = others[ch.draw("w", len(others), "stack-method")]
            before = wr.get_params(deep=False).get("method")
            ok, keep_alive = U.sut(c, "SkBaseTransformStacking([wrapper], other method)", SkBaseTransformStacking, [wr], other)
            if not ok:
                c.probe("stacking_construction_raised")
                continue
            now = wr.get_params(deep=False).get("method")
            if now != before:
                sim.viol("transparency", ("learner", "retargeted-by-another-object"), "after SkBaseTransformStacking([wrapper], %r) was built, the wrapper reports method %r instead of %r" % (other, now, chosen))
            c.probe("wrapper_shared_with_a_stacking")
            continue
        if op in ("fit", "fit-fail"):
            data = dataA if ch.boolean("w", 0.5, "which") else dataB
            kw = _fit_kw(cur_name, data)
            fire = [(-1, type(wr.model).__name__ if cur_name != "pipe-linreg" else "PeerLinearRegression", "fit", 0)] if op == "fit-fail" else ()
            sim.env(fire)
            ok, r = U.sut(c, op, wr.fit, data["X"], _target(cur_name, data), **kw)
            if op == "fit-fail":
                fitted = False
                if ok:
                    c.probe("fault_swallowed")
                continue
            if not ok:
                sim.viol("fit-raised", ("learner", type(r).__name__, U.where_raised(r)), "fit raised %s" % U.short_exc(r))
                return
            if r is not wr:
                sim.viol("fit-returns-self", ("learner",), "fit did not return the wrapper")
            fitted = True
            _check_record(sim, "learner", wr.model, data, cur_name, kw)
        elif op == "transform":
            if not fitted:
                continue
            sim.env()
            ok, out = U.sut(c, "transform", wr.transform, data["Xp"])
            if not ok:
                sim.viol("transform-raised", ("learner", type(out).__name__, U.where_raised(out)), "transform raised %s after a successful fit" % U.short_exc(out))
                continue
            want = _reference(sim, cur_name, data, chosen)
            out = numpy.asarray(out)
            c.log.ev("result", k, C.ahash(out))
            if out.ndim != 2 or out.shape != want.shape or not U.arrays_equal(out, want, 1e-9, 1e-12):
                direct = _two_d(chosen(data["Xp"]) if callable(chosen) else getattr(wr.model, chosen)(data["Xp"]))
                stale = out.shape == direct.shape and not U.arrays_equal(out, direct, 1e-9, 1e-12)
                sim.viol(
                    "transparency",
                    ("learner", "stale-bound-method" if stale else "output"),
                    "transform returned shape %r, the %r method of the currently configured model (%s) gives shape %r; equal to the configured model's own output: %s" % (out.shape, getattr(chosen, "__name__", chosen), cur_name, want.shape, not stale),
                )
        elif op == "transform-reused-buffer":
            if not fitted:
                continue
            buf = data["Xp"].copy()
            sim.env()
            U.sut(c, "transform(buffer)", wr.transform, buf)
            buf[...] = data["Xp"][::-1]
            ok, out = U.sut(c, "transform(buffer refilled)", wr.transform, buf)
            c.probe("buffer_reused")
            if ok:
                want = _reference(sim, cur_name, dict(data, Xp=data["Xp"][::-1].copy()), chosen)
                if numpy.asarray(out).shape != want.shape or not U.arrays_equal(numpy.asarray(out), want, 1e-9, 1e-12):
                    sim.viol("transparency", ("learner", "buffer-reuse"), "transform on an array object that was transformed before and refilled in place does not return the output for its current rows")
        elif op == "set-model":
            cands = [m for m in sorted(MODELS) if m not in TRANSFER_ONLY and (callable(chosen) or chosen in MODELS[m][1])]
            new_name = ch.choice("w", cands, "new-model")
            sim.env()
            ok, r = U.sut(c, "set_params(model)", wr.set_params, model=MODELS[new_name][0]())
            if not ok:
                sim.viol("set_params-raised", ("learner", "model", type(r).__name__), "set_params(model=...) raised %s" % U.short_exc(r))
                return
            cur_name = new_name
            fitted = False
            c.probe("model_replaced")
        elif op == "set-method":
            cands = list(MODELS[cur_name][1])
            new_m = ch.choice("w", cands, "new-method")
            sim.env()
            ok, r = U.sut(c, "set_params(method)", wr.set_params, method=new_m)
            if not ok:
                sim.viol("set_params-raised", ("learner", "method", type(r).__name__), "set_params(method=%r) raised %s" % (new_m, U.short_exc(r)))
                return
            chosen = new_m
            c.probe("method_replaced")
        elif op == "clone":
            ok, r = U.sut(c, "clone", clone, wr)
            if not ok:
                sim.viol("clone-raised", ("learner", type(r).__name__), "clone raised %s" % U.short_exc(r))
                return
            wr = r
            fitted = False
            if not callable(chosen):
                chosen = wr.method if chosen is None else chosen


# ---------------------------------------------------------------------------
def _run_stacking(c, sim):
    ch = c.ch
    method = ch.choice("w", ["predict", "predict_proba", "decision_function"], "method")
    learners = [m for m in sorted(MODELS) if method in MODELS[m][1] and m not in ("kmeans",) + TRANSFER_ONLY + LEARNER_ONLY]
    transformers = ["scaler", "pca"]
    nm = ch.integer("w", 1, 4, "n-members")
    if ch.boolean("w", 0.12, "many-members"):
        nm = ch.integer("w", 11, 13, "n-members-many")  # member indices with two digits
    members = []
    overrides = {}
    for i in range(nm):
        kind = ch.weighted("w", [("learner", 4), ("wrapped", 2), ("transformer", 2)], "member-kind")
        if kind == "transformer":
            members.append(("transformer", ch.choice("w", transformers, "tr")))
        else:
            members.append((kind, ch.choice("w", learners, "learner")))
    data = _data(ch, "A")
    data2 = _data(ch, "B")
    c.scenario.update({"wrapper": "SkBaseTransformStacking", "method": method, "members": members, "A": data["desc"], "ops": []})
    c.signature = ["stacking", method, repr(members)]
    objs = []
    for kind, name in members:
        m = MODELS[name][0]()
        if kind == "wrapped":
            m = SkBaseTransformLearner(m, method)
        objs.append(m)
    ok, st = U.sut(c, "construct", SkBaseTransformStacking, objs, method)
    if not ok:
        sim.viol("construct-raised", ("stacking", type(st).__name__), "SkBaseTransformStacking raised %s" % U.short_exc(st))
        return
    fitted = False
    cur = data
    for k in range(ch.integer("w", 2, 6, "nops")):
        op = ch.choice("w", ["fit", "transform", "transform", "clone", "fit-fail", "set-nested"], "op")
        if len(c.scenario["ops"]) < 16:
            c.scenario["ops"].append(op)
        if op == "set-nested":
            # a nested parameter of one member, addressed by its index
            TUNABLE = {"logreg": ("C", [0.05, 20.0]), "logreg-C": ("C", [0.01, 50.0]), "treeclf": ("max_depth", [1, 3]), "treereg": ("max_depth", [1, 3]), "linreg": ("fit_intercept", [False])}
            cand = [j for j, (kind, name) in enumerate(members) if kind != "transformer" and name in TUNABLE]
            if not cand:
                continue
            j = cand[-1] if ch.boolean("w", 0.6, "last-member") else cand[ch.draw("w", len(cand), "member")]
            pname, vals = TUNABLE[members[j][1]]
            val = vals[ch.draw("w", len(vals), "nested-value")]
            ok, r = U.sut(c, "set_params(models_%d__model__%s)" % (j, pname), st.set_params, **{"models_%d__model__%s" % (j, pname): val})
            if not ok:
                sim.viol("set_params-raised", ("stacking", "nested", type(r).__name__), "set_params(models_%d__model__%s=%r) raised %s" % (j, pname, val, U.short_exc(r)))
                return
            overrides.setdefault(j, {})[pname] = val
            fitted = False
            c.probe("nested_parameter_of_member_%s" % ("ge_10" if j >= 10 else "lt_10"))
            continue
        if op in ("fit", "fit-fail"):
            cur = data if ch.boolean("w", 0.6, "which") else data2
            kw = {"sample_weight": cur["w"]} if cur["w"] is not None and not any(n == "pca" for _, n in members) else {}
            fire = ()
            if op == "fit-fail":
                j = ch.draw("f", len(members), "failing-member")
                inner = st.models[j].model if hasattr(st.models[j], "model") else st.models[j]
                fire = [(-1, type(inner).__name__, "fit", sum(1 for q in range(j) if type(st.models[q].model if hasattr(st.models[q], "model") else st.models[q]) is type(inner)))]
            sim.env(fire)
            ok, r = U.sut(c, op, st.fit, cur["X"], cur["y"], **kw)
            if op == "fit-fail":
                fitted = False
                continue
            if not ok:
                sim.viol("fit-raised", ("stacking", type(r).__name__, U.where_raised(r)), "fit raised %s" % U.short_exc(r))
                return
            if r is not st:
                sim.viol("fit-returns-self", ("stacking",), "fit did not return the wrapper")
            fitted = True
            for (kind, name), m in zip(members, st.models):
                inner = m.model if hasattr(m, "model") else m
                _check_record(sim, "stacking", inner, dict(cur, yr=cur["y"]), "logreg", kw)
        elif op == "transform":
            if not fitted:
                continue
            sim.env()
            ok, out = U.sut(c, "transform", st.transform, cur["Xp"])
            if not ok:
                sim.viol("transform-raised", ("stacking", type(out).__name__, U.where_raised(out)), "transform raised %s" % U.short_exc(out))
                continue
            cols = []
            for jm, (kind, name) in enumerate(members):
                mth = "transform" if kind == "transformer" else method
                ref = MODELS[name][0]()
                if jm in overrides:
                    ref.set_params(**overrides[jm])
                sim.env()
                kw = {"sample_weight": cur["w"]} if cur["w"] is not None and not any(n == "pca" for _, n in members) else {}
                ref.fit(cur["X"], y=cur["y"], **kw)
                cols.append(_two_d(getattr(ref, mth)(cur["Xp"])))
            want = numpy.hstack(cols)
            out = numpy.asarray(out)
            c.log.ev("result", k, C.ahash(out))
            if out.shape != want.shape or not U.arrays_equal(out, want, 1e-9, 1e-12):
                sim.viol("transparency", ("stacking", "concatenation"), "transform has shape %r, the concatenation of the members' outputs has shape %r (or values differ)" % (out.shape, want.shape))
        elif op == "clone":
            ok, r = U.sut(c, "clone", clone, st)
            if not ok:
                sim.viol("clone-raised", ("stacking", type(r).__name__), "clone raised %s" % U.short_exc(r))
                return
            if len(r.models) != len(members):
                sim.viol("clone", ("stacking", "members"), "the clone has %d members instead of %d" % (len(r.models), len(members)))
                return
            st = r
            fitted = False


# ---------------------------------------------------------------------------
def _run_transfer(c, sim):
    ch = c.ch
    name = ch.choice("w", ["logreg", "treeclf", "linreg", "treereg", "scaler", "kmeans", "pca", "inplace-linreg", "warmstart-linreg", "knn-callable"], "inner")
    methods = MODELS[name][1]
    mchoice = ch.choice("w", [None] + list(methods), "method")
    copy_estimator = ch.choice("w", [True, False], "copy")
    trainable = ch.choice("w", [False, True], "trainable")
    pre = _data(ch, "P")
    dataA = _data(ch, "A")
    dataB = _data(ch, "B")
    d = pre["X"].shape[1]
    for dd in (dataA, dataB):  # same dimension as the pre-fitted model
        rs = numpy.random.RandomState(dd["desc"]["seed"])
        dd["X"] = U.unique_rows(rs, dd["X"].shape[0], d)
        dd["Xp"] = numpy.vstack([dd["X"][:3], rs.randn(3, d)])
        dd["yr"] = dd["X"][:, 0] * 2 + rs.randn(dd["X"].shape[0]) * 0.1
        dd["y"] = (dd["yr"] > numpy.median(dd["yr"])).astype(int)
    c.scenario.update({"wrapper": "TransferTransformer", "inner": name, "method": mchoice, "copy_estimator": copy_estimator, "trainable": trainable, "ops": []})
    c.signature = ["transfer", name, str(mchoice), copy_estimator, trainable]
    original = MODELS[name][0]()
    sim.env()
    original.fit(pre["X"], _target(name, pre))
    probe = pre["Xp"]
    all_methods = ("predict", "predict_proba", "decision_function", "transform")
    dig0 = _digest(original, probe, all_methods)
    ok, tt = U.sut(c, "construct", TransferTransformer, original, mchoice, copy_estimator, trainable)
    if not ok:
        sim.viol("construct-raised", ("transfer", type(tt).__name__), "TransferTransformer raised %s" % U.short_exc(tt))
        return
    method = tt.method
    fitted = False
    cur = None
    frozen_ref = None  # state of the wrapped estimator when the transfer was last fitted
    follow_original = False  # copy_estimator=False and the user retrained the shared object
    trained_from = None  # state of the wrapped estimator just before the last successful fit of the transfer
    for k in range(ch.integer("w", 2, 8, "nops")):
        op = ch.choice("w", ["fit", "transform", "fit", "fit-fail", "transform", "retrain-original", "set-estimator", "persist"], "op")
        if len(c.scenario["ops"]) < 16:
            c.scenario["ops"].append(op)
        if op == "persist":
            # the fitted transfer is pickled or deep-copied and the restored
            # object is used from now on: it is the object it was copied from
            if not fitted or not copy_estimator:
                continue  # a reference to the user's estimator is not a snapshot
            how = ch.choice("w", ["pickle", "deepcopy"], "persist-how")
            sim.env()
            okb, out_before = U.sut(c, "transform(before persisting)", tt.transform, probe)
            try:
                tt = pickle.loads(pickle.dumps(tt)) if how == "pickle" else __import__("copy").deepcopy(tt)
            except Exception as e:  # noqa: BLE001
                sim.viol("persist-raised", ("transfer", how, type(e).__name__), "%s of a fitted TransferTransformer raised %s" % (how, U.short_exc(e)))
                return
            sim.env()
            oka, out_after = U.sut(c, "transform(restored)", tt.transform, probe)
            if okb and (not oka or not U.arrays_equal(numpy.asarray(out_after), numpy.asarray(out_before), 1e-12, 1e-12)):
                sim.viol("persist", ("transfer", how, "outputs"), "the %s copy of a fitted transfer does not return what the object it was copied from returns (%s)" % (how, "raised " + U.short_exc(out_after) if not oka else "values differ"))
            c.probe("transfer_persisted_" + how)
            # the restored transfer holds its own copy of the estimator given
            # as parameter: that copy is "the original" from now on
            original = tt.estimator
            if _digest(original, probe, all_methods)[1:] != dig0[1:]:
                sim.viol("persist", ("transfer", how, "estimator-parameter"), "the estimator held by a %s copy of the transfer does not predict like the one held by the object it was copied from" % how)
            dig0 = _digest(original, probe, all_methods)
            continue
        if op == "retrain-original":
            # the user retrains (or replaces) the estimator they own between two
            # fits of the transfer: the next fit must pick up its current state
            other = dataB if ch.boolean("w", 0.5, "retrain-on") else dataA
            sim.env()
            original.fit(other["X"], _target(name, other))
            dig0 = _digest(original, probe, all_methods)
            c.probe("original_retrained_between_fits")
            if not copy_estimator:
                frozen_ref = None  # the transfer holds a reference: it follows
                follow_original = True
            continue
        if op == "set-estimator":
            newest = MODELS[name][0]()
            sim.env()
            newest.fit(dataB["X"], _target(name, dataB))
            ok, r = U.sut(c, "set_params(estimator)", tt.set_params, estimator=newest)
            if not ok:
                sim.viol("set_params-raised", ("transfer", type(r).__name__), "set_params(estimator=...) raised %s" % U.short_exc(r))
                return
            original = newest
            dig0 = _digest(original, probe, all_methods)
            fitted = False
            c.probe("estimator_replaced_between_fits")
            continue
        if op in ("fit", "fit-fail"):
            cur = dataA if ch.boolean("w", 0.5, "which") else dataB
            fire = [(-1, type(original).__name__, "fit", 0)] if op == "fit-fail" else ()
            sim.env(fire)
            Xfit = cur["X"]
            if ch.boolean("w", 0.25, "fit-on-frame"):
                Xfit = U.as_frame(cur["X"])  # the wrapped estimator was trained on a plain array
                c.probe("transfer_fitted_on_a_frame")
            args = (Xfit, _target(name, cur)) + ((cur["w"],) if cur["w"] is not None and name != "knn-callable" else ())  # KNeighborsRegressor.fit takes no weights
            snapshot = pickle.loads(pickle.dumps(original))
            ok, r = U.sut(c, op, tt.fit, *args)
            if ok:
                frozen_ref = snapshot if copy_estimator else None
                follow_original = False
                trained_from = snapshot
            fired = bool(c.fault_plan.fired)
            if op == "fit-fail":
                if not ok:
                    fitted = False
                if fired:
                    c.probe("inner_fit_failed")
            elif not ok and name == "knn-callable" and isinstance(r, RuntimeError) and "Cannot migrate" in str(r):
                # documented refusal of the copy helper; the oracles below
                # still apply: the estimator was not touched
                fitted = False
                c.probe("copy_of_estimator_refused")
            elif not ok:
                sim.viol(
                    "fit-raised",
                    ("transfer", type(r).__name__, U.where_raised(r), name),
                    "TransferTransformer.fit raised %s (wrapped %s, copy_estimator=%r, trainable=%r)" % (U.short_exc(r), name, copy_estimator, trainable),
                )
                return
            else:
                fitted = True
                if r is not tt:
                    sim.viol("fit-returns-self", ("transfer",), "fit did not return the transformer")
            # frozen / copy oracles, after every fit attempt
            if copy_estimator or not trainable:
                dig = _digest(original, probe, all_methods)
                if dig != dig0:
                    sim.viol(
                        "original-modified",
                        ("copy_estimator=%r" % copy_estimator, "trainable=%r" % trainable, "after:" + op),
                        "the original estimator handed to TransferTransformer changed (state digest %r -> %r)" % (dig0[:2], dig[:2]),
                    )
                    dig0 = dig
            if fitted and not trainable and hasattr(tt, "estimator_"):
                dige = _digest(tt.estimator_, probe, all_methods)
                if dige[1:] != dig0[1:]:
                    sim.viol("frozen-changed", ("copy_estimator=%r" % copy_estimator,), "a non-trainable transfer changed the wrapped estimator's predictions")
        elif op == "transform":
            if not fitted:
                continue
            sim.env()
            ok, out = U.sut(c, "transform", tt.transform, cur["Xp"])
            if not ok:
                sim.viol("transform-raised", ("transfer", type(out).__name__, U.where_raised(out)), "transform raised %s" % U.short_exc(out))
                continue
            out = numpy.asarray(out)
            c.log.ev("result", k, C.ahash(out))
            if follow_original:
                want = numpy.asarray(getattr(original, method)(cur["Xp"]))
            elif trainable:
                # what training the wrapped estimator (as it was when the
                # transfer was fitted) on the current data gives
                ref = pickle.loads(pickle.dumps(trained_from)) if trained_from is not None else MODELS[name][0]()
                sim.env()
                args = (cur["X"], _target(name, cur)) + ((cur["w"],) if cur["w"] is not None and name not in ("pca", "knn-callable") else ())
                if name == "pca":
                    ref.fit(cur["X"], _target(name, cur))
                else:
                    ref.fit(*args)
                want = numpy.asarray(getattr(ref, method)(cur["Xp"]))
            else:
                # copy: the state of the original when fit was called; reference: its current state
                src = frozen_ref if (copy_estimator and frozen_ref is not None) else original
                want = numpy.asarray(getattr(src, method)(cur["Xp"]))
            if out.shape != want.shape or not U.arrays_equal(out, want, 1e-9, 1e-12):
                sim.viol(
                    "transparency",
                    ("transfer", "trainable=%r" % trainable),
                    "transform differs from the %s output of the %s estimator" % (method, "retrained" if trainable else "wrapped (frozen)"),
                )


def run(c, index, tier):
    ch = c.ch
    sim = _Sim(c)
    c.scenario = {}
    kind = ch.choice("w", ["learner", "stacking", "transfer"], "kind")
    c.nontrivial = True
    if kind == "learner":
        _run_learner(c, sim)
    elif kind == "stacking":
        _run_stacking(c, sim)
    else:
        _run_transfer(c, sim)
