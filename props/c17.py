"""C17 -- IntervalRegressor bootstraps over the whole training set and
aggregates exactly.

``fit`` draws its resamples with ``numpy.random`` on the process-global RNG,
from inside worker tasks; there is no seed argument.  The entropy seam sees
every request and decides every answer (DESIGN §4 C17).
"""
import numpy
from sklearn.base import BaseEstimator, RegressorMixin
from sklearn.dummy import DummyRegressor
from sklearn.linear_model import ElasticNet, LinearRegression
from sklearn.tree import DecisionTreeRegressor

from dsim import ctx as C
from dsim import entropy as E
from dsim import peers as P
from props import common as U

from mlinsights.mlmodel import IntervalRegressor

PROP = "C17"

PLinReg = P.make_peer(LinearRegression)
PDummy = P.make_peer(DummyRegressor)
PTree = P.make_peer(DecisionTreeRegressor)
PElasticNet = P.make_peer(ElasticNet)


class KeepsItsTrainingArrays(RegressorMixin, BaseEstimator):
    """A base regressor that keeps the arrays it is given (as KernelRidge or a
    nearest-neighbour model do) and predicts from them at prediction time."""

    def fit(self, X, y, sample_weight=None):
        P._site(self, "fit")
        P._record_fit(self, None, (X, y, sample_weight), {})  # copies, for the oracle
        self.X_, self.y_, self.w_ = X, y, sample_weight  # references
        return self

    def predict(self, X):
        w = numpy.ones(len(self.y_)) if self.w_ is None else numpy.asarray(self.w_, dtype=float)
        w = w if w.sum() > 0 else numpy.ones(len(self.y_))
        return numpy.full(numpy.asarray(X).shape[0], float(numpy.average(numpy.asarray(self.y_, dtype=float), weights=w)) + float(numpy.asarray(self.X_, dtype=float).sum()) * 1e-3)


class PickyLinReg(PLinReg):
    """A base regressor that validates its input: it refuses a resample whose
    targets are all equal (as estimators with input validation do)."""

    def fit(self, X, y, sample_weight=None):
        if len(y) > 1 and numpy.all(numpy.asarray(y) == numpy.asarray(y)[0]):
            raise ValueError("PickyLinReg: constant target")
        return PLinReg.fit(self, X, y, sample_weight)


def _alpha(ch, n):
    """alpha such that alpha*n is an exact half-integer or not within 0.05 of
    one, and round(alpha*n) >= 1 whichever way an exact half is rounded (the
    statement's "round" does not say: both neighbours are accepted there)."""
    for _ in range(20):
        a = ch.choice("w", [1.0, 0.5, 0.75, 1.5, 0.34, 2.0, 0.9, 1.21], "alpha")
        v = a * n
        frac = v - numpy.floor(v)
        if (abs(frac - 0.5) > 0.05 or float(2 * v).is_integer()) and min(int(v + 0.5), round(v)) >= 1:
            return a
    return 1.0


def _viol(c, seen, oracle, detail, msg):
    sig = (PROP, oracle) + tuple(str(d) for d in detail)
    if sig in seen:
        return
    seen.add(sig)
    c.violation(PROP, oracle, sig, msg + " | scenario: " + repr(c.scenario))


def _requests(ent):
    """Normalises the logged sampling requests of one fit:
    list of (kind, lo, hi, size, task, result)."""
    out = []
    for name, args, task, result in ent.requests:
        base = name.split(".")[-1]
        if base == "randint":
            lo, hi = args[0], args[1]
            if hi is None or (len(args) >= 2 and isinstance(hi, str)):
                lo, hi = 0, lo
            res = numpy.atleast_1d(numpy.asarray(result))
            out.append(("randint", int(lo), int(hi), int(res.size), task, res))
        elif base in ("choice", "permutation", "shuffle", "rand", "random_sample", "random"):
            out.append((base, None, None, None, task, result))
    return out


def run(c, index, tier):
    ch = c.ch
    seen = set()
    n = ch.weighted("w", [(k, 3 if k <= 4 else 1) for k in range(1, 13)] + [(0, 1)], "n")
    if n == 0:
        # a few hundred rows: row numbers beyond what one byte holds
        n = 257 + ch.draw("w", 150, "n-large")
        c.probe("training_set_of_more_than_256_rows")
    d = ch.integer("w", 1, 3, "d")
    data_seed = ch.subseed("w", "data")
    rs = numpy.random.RandomState(data_seed)
    X = U.unique_rows(rs, n, d)
    y = numpy.round(X @ rs.randn(d) + rs.randn(n), 6) + numpy.arange(n) * 1e-3  # distinct targets
    w = None
    if ch.boolean("w", 0.4, "weights"):
        w = numpy.round(rs.rand(n) + 0.5, 4) + numpy.arange(n) * 1e-4  # distinct weights
        if ch.boolean("w", 0.15, "constant-weights"):
            # all rows carry the same weight, not 1: still the weight of each drawn row
            w = numpy.full(n, 2.5)
            c.probe("constant_weights")
        elif n >= 3 and ch.boolean("w", 0.3, "zero-weights"):
            # null weights are valid sample weights: such rows stay eligible
            w[rs.permutation(n)[: max(1, n // 3)]] = 0.0
            c.probe("some_weights_are_zero")
    alpha = _alpha(ch, n)
    n_est = ch.integer("w", 1, 8, "n_estimators")
    local_name = ch.choice("w", ["linreg", "tag", "dummy", "tree", "picky", "warm", "keeps-arrays"], "local")
    local = {
        "linreg": PLinReg,
        "tag": P.TagRegressor,
        "dummy": PDummy,
        "tree": lambda: PTree(max_depth=2, random_state=0),
        "picky": PickyLinReg,
        "keeps-arrays": KeepsItsTrainingArrays,
        # a base regressor that continues from its previous solution when it is
        # fitted again: only a fresh clone is trained on its resample alone
        "warm": lambda: PElasticNet(alpha=0.01, warm_start=True, max_iter=50, tol=1e-3),
    }[local_name]()
    n_jobs = ch.choice("w", [None, 2, 3, None], "n_jobs")
    mode = "adversarial" if ch.draw("r", 4, "entropy-mode") != 3 else "pinned"
    mode = getattr(c, "force_entropy_mode", None) or mode  # fidelity self-test only
    n_jobs = getattr(c, "force_n_jobs", None) or n_jobs
    m = ch.integer("w", 1, 6, "m")
    Xq = numpy.vstack([X[: min(m, n)], rs.randn(m, d) * 2])
    qtype = ch.weighted("w", [("float64", 4), ("int64", 2), ("float32", 1)], "query-dtype")
    if qtype == "int64":
        Xq = numpy.round(Xq * 3).astype(numpy.int64)  # count-like features
    elif qtype == "float32":
        Xq = Xq.astype(numpy.float32)
    g = ch.subseed("r", "global-seed")
    size = int(n * alpha + 0.5)
    sizes_ok = {size, int(round(n * alpha))}  # an exact half may be rounded either way
    c.scenario = {
        "n": n,
        "d": d,
        "alpha": alpha,
        "resample_size": size,
        "n_estimators": n_est,
        "local": local_name,
        "weights": w is not None,
        "n_jobs": n_jobs,
        "entropy": mode,
        "query_dtype": qtype,
        "data_seed": data_seed,
    }
    c.signature = [n, alpha, n_est, local_name, w is not None, n_jobs, mode]
    if n == 1:
        c.probe("n_equals_1")

    model = IntervalRegressor(estimator=local, n_estimators=n_est, alpha=alpha, n_jobs=n_jobs)
    before_ids, before_keep = set(), []
    if ch.boolean("w", 0.3, "history-before"):
        # the same object has a past: a fit on another training set with
        # another number of models, queried, then possibly a fit that died at
        # one of its resamples.  Everything checked below is about the last fit.
        rs0 = numpy.random.RandomState(ch.subseed("w", "data-before"))
        n0 = ch.integer("w", 2, 14, "n-before")
        X0 = U.unique_rows(rs0, n0, d) * 1.3 - 0.2
        y0 = numpy.round(rs0.randn(n0), 5) + numpy.arange(n0) * 1e-3
        k0 = n_est if ch.boolean("w", 0.5, "same-n_estimators-before") else ch.integer("w", 1, 9, "n_estimators-before")
        c.entropy = E.Entropy("pinned")
        c.fault_plan = P.FaultPlan(())
        numpy.random.seed((g + 1) % (2**32 - 1))
        model.set_params(n_estimators=k0)
        ok0, _ = U.sut(c, "fit(before)", model.fit, X0, y0)
        if ok0:
            U.sut(c, "predict(before)", model.predict, X0)
            U.sut(c, "predict_sorted(before)", model.predict_sorted, X0[:1])
        sites = [s_ for s_ in c.fault_plan.seen if s_[2] == "fit"]
        if sites and ch.boolean("f", 0.6, "fit-before-dies"):
            site = sites[ch.draw("f", len(sites), "site")]
            kind = ch.weighted("f", [("runtime", 3), ("value", 2), ("cancel", 1)], "fault-kind")
            c.fault_plan = P.FaultPlan([site], kind)
            numpy.random.seed((g + 1) % (2**32 - 1))
            okf, _ = U.sut(c, "fit(before, dies)", model.fit, X0, y0)
            if c.fault_plan.fired:
                c.probe("earlier_fit_died_at_a_resample")
        before_ids = set(id(e) for e in getattr(model, "estimators_", ()))
        before_keep = list(getattr(model, "estimators_", ()))  # keeps the ids alive
        model.set_params(n_estimators=n_est)
        c.scenario["history_before"] = {"n": n0, "n_estimators": k0}
        c.probe("fitted_before_on_other_data")
    c.entropy = E.Entropy(mode, force_extremes=(mode == "adversarial"))
    c.fault_plan = None
    numpy.random.seed(g % (2**32 - 1))
    Xc, yc = X.copy(), y.copy()
    if w is None:
        ok, r = U.sut(c, "fit", model.fit, X, y)
    else:
        ok, r = U.sut(c, "fit", model.fit, X, y, sample_weight=w)
    c.nontrivial = bool(c.seam_calls)
    if not ok and ((local_name == "picky" and "PickyLinReg" in str(r)) or (w is not None and numpy.any(w == 0) and U.raised_inside_peer(r))):
        # the base estimator refused a resample (constant target, only
        # null-weight rows): propagating its refusal is legitimate
        c.probe("base_estimator_rejected_a_resample")
        return
    if not ok:
        _viol(
            c,
            seen,
            "fit-raised",
            (type(r).__name__, U.where_raised(r), "n=1" if n == 1 else "n>1"),
            "fit raised %s on a valid training set (n=%d >= 1)" % (U.short_exc(r), n),
        )
        return
    if not (numpy.array_equal(Xc, X) and numpy.array_equal(yc, y)):
        _viol(c, seen, "inputs-modified", (), "fit modified the training data")

    # ---- (a) seam level: what was asked
    reqs = _requests(c.entropy)
    rint = [q for q in reqs if q[0] == "randint"]
    if len(c.probes) >= 0 and c.probes.get("max_tasks_in_flight_2", 0) + c.probes.get("max_tasks_in_flight_3", 0) > 0:
        c.probe("two_resample_tasks_interleaved")
    for kind, lo, hi, sz, task, res in rint:
        if lo != 0 or hi != n:
            which = "last-row-never-eligible" if (lo == 0 and hi == n - 1) else ("first-row-never-eligible" if (lo == 1 and hi == n) else "other")
            _viol(
                c,
                seen,
                "support",
                (which,),
                "a resample asked for indices in [%d, %d) while the training set has rows 0..%d: not every row is eligible" % (lo, hi, n - 1),
            )
            break
    for kind, lo, hi, sz, task, res in rint:
        if sz not in sizes_ok:
            _viol(c, seen, "resample-size", ("seam",), "a resample asked for %d indices, expected round(alpha*n)=%d" % (sz, size))
            break
        if res.size and (res.max() >= hi or res.min() < lo):
            raise C.HarnessError("seam answered outside the requested range")
        if res.size and res.max() == hi - 1:
            c.probe("draw_at_range_maximum")
        if res.size and res.min() == lo:
            c.probe("draw_at_range_minimum")

    # ---- (b) record level
    ests = model.estimators_
    if len(ests) != n_est:
        _viol(c, seen, "n-estimators", (), "%d fitted models for n_estimators=%d" % (len(ests), n_est))
        return
    rowidx = U.row_index_map(X)
    used = set()
    for i, est in enumerate(ests):
        if not hasattr(est, "rec_X_"):
            _viol(c, seen, "record", ("not-fitted",), "estimators_[%d] was not fitted" % i)
            return
        if est.rec_X_.shape[0] not in sizes_ok:
            _viol(c, seen, "resample-size", ("record",), "estimators_[%d] was trained on %d rows, expected round(alpha*n)=%d" % (i, est.rec_X_.shape[0], size))
            return
        try:
            R = [rowidx[est.rec_X_[k].tobytes()] for k in range(est.rec_X_.shape[0])]
        except KeyError:
            _viol(c, seen, "record", ("foreign-row",), "estimators_[%d] was trained on a row that is not a training row" % i)
            return
        used.update(R)
        if isinstance(est, KeepsItsTrainingArrays) and not (numpy.array_equal(numpy.asarray(est.X_), est.rec_X_) and numpy.array_equal(numpy.asarray(est.y_), est.rec_y_) and (est.w_ is None or numpy.array_equal(numpy.asarray(est.w_), est.rec_w_))):
            _viol(c, seen, "record", ("training-arrays-overwritten",), "estimators_[%d] keeps the arrays it was trained on, and they no longer hold its resample: they were rewritten after its fit (another model's resample)" % i)
            return
        if not numpy.array_equal(est.rec_y_, y[R]):
            _viol(c, seen, "record", ("target-misaligned",), "estimators_[%d]: targets are not those of the drawn rows (rows %r)" % (i, R))
            return
        if (w is None) != (est.rec_w_ is None) or (w is not None and not numpy.array_equal(est.rec_w_, w[R])):
            _viol(c, seen, "record", ("weight-misaligned",), "estimators_[%d]: weights are not those of the drawn rows (rows %r)" % (i, R))
            return
    if any(getattr(e, "rec_n_fit_", 1) != 1 or id(e) in before_ids for e in ests):
        _viol(c, seen, "record", ("model-trained-before",), "a model of the last fit had been trained before (%r fits; object of an earlier fit reused: %r): it was not trained on its resample of the current training set alone" % ([getattr(e, "rec_n_fit_", 1) for e in ests], [id(e) in before_ids for e in ests]))
    if len(set(id(e) for e in ests)) != len(ests) or any(e is local for e in ests):
        _viol(c, seen, "record", ("shared-model",), "the fitted models are not distinct clones of the base estimator")
    sampled = [q for q in reqs if q[0] in ("randint", "rand", "random_sample", "random")]
    if mode == "adversarial" and size >= 2 and n >= 2 and sampled and len(sampled) == len(reqs):
        # the seam returned both ends of every requested range (integer
        # ranges and [0, 1) alike): the first and the last row must have
        # been drawn by some model
        if 0 not in used or (n - 1) not in used:
            _viol(
                c,
                seen,
                "support",
                ("row-never-drawn", "first" if 0 not in used else "last"),
                "although the entropy source returned both ends of the requested range in every resample, rows %r were never drawn" % (sorted(set(range(n)) - used),),
            )
    c.log.ev("result", "records", [C.ahash([e.rec_X_, e.rec_y_, e.rec_w_]) for e in ests])

    # ---- (c) aggregation
    c.entropy = E.Entropy("pinned")
    if ch.boolean("w", 0.3, "set-n_estimators-after-fit"):
        # the hyper-parameter changes after fit (a grid search does this
        # before refitting): the fitted models are still the ones that count
        other = n_est + 1 + ch.draw("w", 5, "other-n_estimators") if ch.boolean("w", 0.5, "more") else max(1, n_est - 1 - ch.draw("w", 3, "fewer"))
        U.sut(c, "set_params(n_estimators)", model.set_params, n_estimators=other)
        c.probe("n_estimators_changed_after_fit")
    # a tuning knob of the environment, drawn per run: scikit-learn's
    # working_memory (code that processes a batch by blocks consults it) --
    # a value so small that every batch is "too large"
    import sklearn

    knob = ch.weighted("w", [(None, 3), (1e-4, 1)], "working_memory")
    with sklearn.config_context(**({} if knob is None else {"working_memory": knob})):
        ok, pa = U.sut(c, "predict_all", model.predict_all, Xq)
        ok2, p = U.sut(c, "predict", model.predict, Xq)
        ok3, ps = U.sut(c, "predict_sorted", model.predict_sorted, Xq)
    if knob is not None:
        c.probe("tiny_working_memory")
    for name, o, val in (("predict_all", ok, pa), ("predict", ok2, p), ("predict_sorted", ok3, ps)):
        if not o:
            _viol(c, seen, "predict-raised", (name, type(val).__name__), "%s raised %s" % (name, U.short_exc(val)))
            return
    pa = numpy.asarray(pa)
    p = numpy.asarray(p)
    ps = numpy.asarray(ps)
    mq = Xq.shape[0]
    if pa.shape != (mq, n_est):
        _viol(c, seen, "aggregation", ("predict_all-shape",), "predict_all has shape %r, expected %r" % (pa.shape, (mq, n_est)))
        return
    c.probe("query_" + qtype)
    for i, est in enumerate(ests):
        if not U.arrays_equal(pa[:, i], numpy.asarray(est.predict(Xq), dtype=numpy.float64).ravel(), 1e-12, 1e-12):
            _viol(c, seen, "aggregation", ("predict_all-column",), "predict_all[:, %d] is not the prediction of model %d" % (i, i))
            break
    if p.shape != (mq,) or not numpy.allclose(p, pa.mean(axis=1), rtol=1e-12, atol=1e-12 * (1.0 + float(numpy.abs(pa).max()))):
        _viol(c, seen, "aggregation", ("mean",), "predict is not the mean of the individual predictions: %r vs %r" % (p.tolist()[:4], pa.mean(axis=1).tolist()[:4]))
    if ps.shape != pa.shape or not numpy.array_equal(ps, numpy.sort(pa, axis=1)):
        _viol(c, seen, "aggregation", ("sorted",), "predict_sorted rows are not the individual predictions in non-decreasing order")
    elif numpy.any(p < ps[:, 0] - 1e-9 * (1 + numpy.abs(p))) or numpy.any(p > ps[:, -1] + 1e-9 * (1 + numpy.abs(p))):
        _viol(c, seen, "aggregation", ("min-mean-max",), "predict is outside [min, max] of the individual predictions")
    c.log.ev("result", "pred", C.ahash(pa), C.ahash(p), C.ahash(ps))
    # the caller reuses one array object for the next batch
    if mq >= 2:
        buf = Xq.copy()
        U.sut(c, "predict(buffer)", model.predict, buf)
        U.sut(c, "predict_sorted(buffer)", model.predict_sorted, buf)
        buf[...] = Xq[::-1]
        ok4, p2 = U.sut(c, "predict(buffer refilled)", model.predict, buf)
        ok5, pa2 = U.sut(c, "predict_all(buffer refilled)", model.predict_all, buf)
        c.probe("buffer_reused")
        if ok4 and ok5:
            # same memory layout as the refilled buffer (a reversed *view* takes
            # another BLAS path, and an ill-conditioned model on a tiny resample
            # has coefficients of 1e8: one ulp of a term is 1e-8 of the result)
            Xrev = numpy.ascontiguousarray(Xq[::-1])
            want = numpy.stack([numpy.asarray(est.predict(Xrev), dtype=numpy.float64).ravel() for est in ests], axis=1)
            slack = 1e-9 * (1.0 + float(numpy.abs(want).max())) if want.size else 1e-9
            if not U.arrays_equal(numpy.asarray(pa2), want, 1e-9, slack) or not numpy.allclose(numpy.asarray(p2), want.mean(axis=1), rtol=1e-9, atol=slack):
                _viol(c, seen, "aggregation", ("buffer-reuse",), "predict / predict_all on an array object that was predicted before and refilled in place do not return the predictions of its current rows")
