"""Estimator registry shared by C01-C04, C15: for each exported class a
configuration generator driven by stream ``w``, the data it needs, its
observable methods, which of them are row-wise, comparison tolerances.

Estimator slots are always filled with peers (dsim.peers) so that fault sites
and training records exist.  Components broken by the environment (DESIGN §1)
are never generated.
"""
import numpy
import pandas
from sklearn.cluster import KMeans
from sklearn.decomposition import PCA
from sklearn.dummy import DummyRegressor
from sklearn.linear_model import LinearRegression, LogisticRegression
from sklearn.neighbors import KNeighborsRegressor
from sklearn.preprocessing import KBinsDiscretizer, StandardScaler
from sklearn.tree import DecisionTreeClassifier, DecisionTreeRegressor

from dsim import peers as P
from props import common as U

from mlinsights.mlmodel import (
    ApproximateNMFPredictor,
    CategoriesToIntegers,
    ClassifierAfterKMeans,
    ConstraintKMeans,
    DecisionTreeLogisticRegression,
    ExtendedFeatures,
    IntervalRegressor,
    KMeansL1L2,
    PiecewiseClassifier,
    PiecewiseRegressor,
    PiecewiseTreeRegressor,
    PredictableTSNE,
    QuantileLinearRegression,
    TransferTransformer,
    TransformedTargetClassifier2,
    TransformedTargetRegressor2,
)
from mlinsights.sklapi import SkBaseTransformLearner, SkBaseTransformStacking

EXACT = (0.0, 0.0)
TOL = (1e-9, 1e-12)
# scikit-learn computes euclidean distances as ||x||^2 - 2 x.c + ||c||^2: the
# cancellation error depends on the batch shape (relative 1e-8 observed)
TOL_DIST = (1e-6, 1e-6)  # sqrt of a cancellation error ~eps*|x|^2 near a centre: ~1e-8*|x| absolute

PLinReg = P.make_peer(LinearRegression)
PLogReg = P.make_peer(LogisticRegression)
PTreeReg = P.make_peer(DecisionTreeRegressor)
PTreeClf = P.make_peer(DecisionTreeClassifier)
PDummyReg = P.make_peer(DummyRegressor)
PKMeans = P.make_peer(KMeans)
PPCA = P.make_peer(PCA)
PScaler = P.make_peer(StandardScaler)
PKBins = P.make_peer(KBinsDiscretizer)
PKNNReg = P.make_peer(KNeighborsRegressor)


def warm_logreg():
    """An inner classifier whose fit starts from its previous state (real
    scikit-learn warm start, few iterations): a meta-estimator that fits the
    object it was given instead of a clone then depends on earlier fits."""
    return PLogReg(warm_start=True, max_iter=3)


class PerplexityPCA(PPCA):
    """Stands for TSNE (which is far too slow here): a transformer with
    ``fit_transform`` and a ``perplexity`` parameter that PredictableTSNE has
    to lower when the training set is small."""

    def __init__(self, n_components=1, perplexity=30.0):
        PPCA.__init__(self, n_components=n_components)
        self.perplexity = perplexity


# ---------------------------------------------------------------------------
# data


class Data:
    """Caller-owned training data + a probe batch."""

    def __init__(self, kind, X, y=None, w=None, Xp=None, desc=None):
        self.kind = kind
        self.X = X
        self.y = y
        self.w = w
        self.Xp = Xp if Xp is not None else X
        self.desc = desc or {}
        self._X0 = X.copy() if isinstance(X, numpy.ndarray) else None

    def frame(self):
        """The training features as a DataFrame (same object on every call, so
        that a write into it is seen by the byte comparison)."""
        if getattr(self, "_frame", None) is None:
            self._frame = U.as_frame(self.X.copy())
        return self._frame

    def snapshot_frame(self):
        return None if getattr(self, "_frame", None) is None else U.C.ahash(self._frame)

    def restore(self):
        """Configurations documented to write into X (copy_x=False,
        copy_X=False) may do so: every operation starts from the original
        bytes."""
        if self._X0 is not None:
            self.X[...] = self._X0
            if getattr(self, "_frame", None) is not None:
                self._frame.iloc[:, :] = self._X0

    def snapshot(self):
        parent = getattr(self, "_parent", None)
        return (U.C.ahash(self.X), U.C.ahash(self.y), U.C.ahash(self.w), self.snapshot_frame(), None if parent is None else U.C.ahash(parent))


def draw_data(ch, kind, label="A", n_lo=6, n_hi=40, allow_weights=True, n_min=None):
    n = ch.integer("w", max(n_lo, n_min or 0), max(n_hi, (n_min or 0) + 4), "n" + label)
    d = ch.integer("w", 2 if kind == "nonneg" else 1, 3, "d" + label)
    seed = ch.subseed("w", "data" + label)
    rs = numpy.random.RandomState(seed)
    style = ch.choice("w", ["normal", "grid", "clusters"], "xstyle" + label)
    X = U.unique_rows(rs, n, d, style)
    desc = {"n": n, "d": d, "style": style, "data_seed": seed, "kind": kind}
    y = None
    if kind == "nonneg":
        X = numpy.abs(X) + 0.01
    if kind in ("reg", "nonneg"):
        y = X @ rs.randn(d) + numpy.sin(X[:, 0]) + 0.1 * rs.randn(n)
    elif kind == "reg+":
        y = numpy.exp(0.3 * (X @ rs.randn(d)) + 0.05 * rs.randn(n)) + 0.5
    elif kind in ("clf", "clf2"):
        ncls = 2 if kind == "clf2" else ch.integer("w", 2, 3, "ncls" + label)
        score = X[:, 0] + 0.6 * rs.randn(n)
        qs = numpy.quantile(score, numpy.linspace(0, 1, ncls + 1)[1:-1])
        lab = numpy.searchsorted(qs, score)
        for cl in range(ncls):  # at least two examples of every class
            idx = numpy.where(lab == cl)[0]
            need = 2 - len(idx)
            k = 0
            while need > 0 and k < n:
                if (lab == lab[k]).sum() > 2 and lab[k] != cl:
                    lab[k] = cl
                    need -= 1
                k += 1
        ltype = ch.weighted("w", [("int", 5), ("int-arbitrary", 2), ("str", 2), ("float", 1)], "ltype" + label)
        if ltype == "int":
            y = lab.astype(numpy.int64)
        elif ltype == "int-arbitrary":
            y = numpy.array([-3, 4, 11])[lab]
        elif ltype == "float":
            y = numpy.array([1.0, 2.0, 5.0])[lab]  # float64 storage of integral class labels
        else:
            y = numpy.array(["ant", "bee", "cat"])[lab]
        desc["labels"] = ltype
        desc["classes"] = int(len(set(lab.tolist())))
    if kind == "clu" and ch.boolean("w", 0.3, "ignored-y" + label):
        # scikit-learn clusterers accept (and ignore) y; pipelines pass it
        y = rs.randint(0, 4, n).astype(numpy.int32 if ch.boolean("w", 0.5, "y32" + label) else numpy.int64)
        desc["ignored_y"] = str(y.dtype)
    w = None
    if allow_weights and ch.boolean("w", 0.3, "weights" + label):
        w = numpy.round(rs.rand(n) * 3 + 0.25, 3)
        desc["weights"] = True
    if ch.boolean("w", 0.15, "frame" + label):
        desc["as_frame"] = True
    # memory layout / dtype of the caller's arrays: an in-place write or a
    # dtype-dependent path may only exist for some of them
    layout = ch.weighted("w", [("C", 6), ("F", 1), ("float32", 1), ("view", 1), ("int64", 1)], "xlayout" + label)
    desc["x_layout"] = layout
    if w is not None:
        wkind = ch.weighted("w", [("float64", 4), ("int", 1), ("float32", 1)], "wdtype" + label)
        desc["w_dtype"] = wkind
        if wkind == "int":
            w = numpy.maximum(numpy.round(w), 1).astype(numpy.int64)
        elif wkind == "float32":
            w = w.astype(numpy.float32)
    m = ch.integer("w", 1, 8, "m" + label)
    Xp = numpy.vstack([X[rs.permutation(n)[: min(m, n)]], rs.randn(m, d) * 1.5 + 0.1])
    if kind == "nonneg":
        Xp = numpy.abs(Xp) + 0.01
    X = numpy.ascontiguousarray(X)
    Xp = numpy.ascontiguousarray(Xp)
    if layout == "F":
        X = numpy.asfortranarray(X)
    elif layout == "float32":
        X = X.astype(numpy.float32)
        Xp = Xp.astype(numpy.float32)
    elif layout == "int64":
        # count-like features; rows stay pairwise distinct
        X = numpy.round(X * 8).astype(numpy.int64) * (X.shape[0] + 1) + numpy.arange(X.shape[0])[:, None]
        Xp = numpy.round(Xp * 8).astype(numpy.int64) * (X.shape[0] + 1)
        if kind == "nonneg":
            X, Xp = numpy.abs(X) + 1, numpy.abs(Xp) + 1
    elif layout == "view":
        parent = numpy.full((X.shape[0] * 2, X.shape[1] + 1), 7.25)
        parent[::2, : X.shape[1]] = X
        X = parent[::2, : X.shape[1]]  # a non-contiguous, writeable view
        desc["_parent"] = True
    data = Data(kind, X, y, w, Xp, desc)
    if layout == "view":
        data._parent = parent
    if desc.get("as_frame"):
        data.frame()  # exists before the first snapshot is taken
    return data


def draw_frame(ch, label="A"):
    n = ch.integer("w", 4, 20, "n" + label)
    seed = ch.subseed("w", "data" + label)
    rs = numpy.random.RandomState(seed)
    cats_a = ["x", "y", "z", "t"][: ch.integer("w", 1, 4, "ca" + label)]
    cats_b = ["u", "v", "w"][: ch.integer("w", 1, 3, "cb" + label)]
    cols = {
        # object dtype: CategoriesToIntegers detects categorical columns by
        # dtype object (pandas 3 would otherwise infer the 'str' dtype)
        "a": pandas.Series([cats_a[i] for i in rs.randint(0, len(cats_a), n)], dtype=object),
        "num": rs.randn(n),
        "b": pandas.Series([cats_b[i] for i in rs.randint(0, len(cats_b), n)], dtype=object),
    }
    # the set of columns varies from one frame to the next
    layout = ch.choice("w", ["a,num,b", "a,num", "num,b", "b,num,a"], "layout" + label)
    df = pandas.DataFrame({k: cols[k] for k in layout.split(",")})
    # the batch to transform: the training rows, then rows holding category
    # values that were not seen at training time (skip_errors decides what
    # happens to them; whatever it is, it is a function of the row)
    m = ch.integer("w", 0, 4, "unseen-rows" + label)
    if m:
        extra = {
            "a": pandas.Series([(cats_a + ["new-a", "other-a"])[i] for i in rs.randint(0, len(cats_a) + 2, m)], dtype=object),
            "num": rs.randn(m),
            "b": pandas.Series([(cats_b + ["new-b"])[i] for i in rs.randint(0, len(cats_b) + 1, m)], dtype=object),
        }
        order = rs.permutation(n + m)
        probe = pandas.concat([df, pandas.DataFrame({k: extra[k] for k in layout.split(",")})], ignore_index=True).iloc[order].reset_index(drop=True)
    else:
        probe = df
    return Data("frame", df, None, None, probe, {"n": n, "data_seed": seed, "kind": "frame", "cats": [cats_a, cats_b], "columns": layout, "rows_with_unseen_categories": m})


# ---------------------------------------------------------------------------
# specs


class Spec:
    name = None
    frame_ok = False  # fit / predict document DataFrame input
    kind = "reg"
    methods = (("predict", TOL),)
    rowwise = ()  # methods with row-wise semantics (subset of methods)
    weights = True
    has_n_jobs = False
    n_min = None

    def draw(self, ch):
        return {}

    def build(self, cfg):
        raise NotImplementedError

    def fit_args(self, data, cfg=None):
        kw = {}
        if data.w is not None and self.weights:
            kw["sample_weight"] = data.w
        X = data.X
        if self.frame_ok and data.desc.get("as_frame") and isinstance(X, numpy.ndarray):
            X = data.frame()
        if data.y is None:
            return (X,), kw
        return (X, data.y), kw

    def exempt_input_write(self, cfg):
        return False

    def data(self, ch, label="A"):
        return draw_data(ch, self.kind, label, allow_weights=self.weights, n_min=self.n_min)

    def finalize(self, cfg, data):
        """Completes a configuration with values that depend on the training
        data (an array of initial centres, ...).  Called by the checks that
        work on a single training set."""
        return cfg

    def observables(self, est, cfg):
        return [m for m in self.methods if hasattr(est, m[0])]

    def fragile_rows(self, est, Xb):
        """Rows whose output is decided by a floating-point tie (and may
        therefore legitimately differ between batch shapes by one ulp)."""
        return numpy.zeros(Xb.shape[0], dtype=bool)


def _binner(ch, kind):
    b = ch.weighted("w", [("tree", 3), ("kbins", 2), ("bins-str", 1)], "binner")
    if b == "tree":
        return {"binner": "tree", "depth": ch.integer("w", 1, 3, "depth"), "msl": ch.integer("w", 1, 3, "msl")}
    if b == "kbins":
        return {"binner": "kbins", "nbins": ch.integer("w", 2, 3, "nbins"), "strategy": ch.choice("w", ["quantile", "uniform"], "strat")}
    return {"binner": "bins"}


def _mk_binner(cfg, clf):
    if cfg["binner"] == "tree":
        cls = PTreeClf if clf else PTreeReg
        return cls(max_depth=cfg["depth"], min_samples_leaf=cfg["msl"], random_state=0)
    if cfg["binner"] == "kbins":
        return PKBins(n_bins=cfg["nbins"], strategy=cfg["strategy"])
    return "bins"


class SPiecewiseRegressor(Spec):
    name = "PiecewiseRegressor"
    kind = "reg"
    methods = (("predict", TOL),)
    rowwise = ("predict",)
    has_n_jobs = True

    def draw(self, ch):
        cfg = _binner(ch, "reg")
        cfg["local"] = ch.choice("w", ["linreg", "tag", "tree"], "local")
        cfg["n_jobs"] = ch.choice("w", [None, 2, 3], "n_jobs")
        cfg["verbose"] = ch.weighted("w", [(False, 8), (True, 2), ("tqdm", 1)], "verbose")  # 'tqdm' is documented; the module is absent here, fit then raises
        return cfg

    frame_ok = True

    def build(self, cfg):
        local = {"linreg": PLinReg(), "tag": P.TagRegressor(), "tree": PTreeReg(max_depth=2, random_state=0)}[cfg["local"]]
        return PiecewiseRegressor(binner=_mk_binner(cfg, False), estimator=local, n_jobs=cfg["n_jobs"], verbose=cfg.get("verbose", False))


class SPiecewiseClassifier(Spec):
    name = "PiecewiseClassifier"
    kind = "clf"
    methods = (("predict", EXACT), ("predict_proba", TOL), ("decision_function", TOL))
    rowwise = ("predict", "predict_proba", "decision_function")
    has_n_jobs = True

    def draw(self, ch):
        cfg = _binner(ch, "clf")
        cfg["local"] = ch.choice("w", ["logreg", "tag", "tree", "warm"], "local")
        cfg["n_jobs"] = ch.choice("w", [None, 2, 3], "n_jobs")
        cfg["random_state"] = ch.choice("w", [None, 0, 7], "rs")
        cfg["verbose"] = ch.weighted("w", [(False, 8), (True, 2), ("tqdm", 1)], "verbose")  # 'tqdm' is documented; the module is absent here, fit then raises
        return cfg

    frame_ok = True

    def build(self, cfg):
        local = {"logreg": PLogReg(max_iter=60), "tag": P.TagClassifier(), "tree": PTreeClf(max_depth=2, random_state=0), "warm": warm_logreg()}[cfg["local"]]
        return PiecewiseClassifier(binner=_mk_binner(cfg, True), estimator=local, n_jobs=cfg["n_jobs"], random_state=cfg["random_state"], verbose=cfg.get("verbose", False))

    def observables(self, est, cfg):
        ms = [m for m in self.methods]
        if cfg["local"] == "tree":
            ms = [m for m in ms if m[0] != "decision_function"]
        return ms


class SPiecewiseTreeRegressor(Spec):
    name = "PiecewiseTreeRegressor"
    kind = "reg"
    methods = (("predict", TOL), ("predict_leaves", EXACT), ("apply", EXACT))
    rowwise = ("predict", "predict_leaves", "apply")

    def draw(self, ch):
        return {
            "criterion": ch.choice("w", ["mselin", "simple"], "crit"),
            "max_depth": ch.integer("w", 1, 3, "depth"),
            "min_samples_leaf": ch.integer("w", 2, 6, "msl"),
        }

    def build(self, cfg):
        return PiecewiseTreeRegressor(criterion=cfg["criterion"], max_depth=cfg["max_depth"], min_samples_leaf=cfg["min_samples_leaf"])

    def data(self, ch, label="A"):
        dt = Spec.data(self, ch, label)
        # the compiled criteria take a C-contiguous float64 buffer only
        if not (isinstance(dt.X, numpy.ndarray) and dt.X.dtype == numpy.float64 and dt.X.flags["C_CONTIGUOUS"]):
            dt.X = numpy.ascontiguousarray(dt.X, dtype=numpy.float64)
            dt.Xp = numpy.ascontiguousarray(dt.Xp, dtype=numpy.float64)
            dt._X0 = dt.X.copy()
            dt._parent = None
            dt.desc["x_layout"] = "C (forced)"
        return dt

    def fit_args(self, data, cfg=None):
        # sample weights with the linear criterion are not supported by the
        # compiled code in this environment (memoryview has no .sum)
        return (data.X, data.y), {}

    weights = False

    def observables(self, est, cfg):
        ms = [("predict", TOL), ("apply", EXACT)]
        if cfg["criterion"] == "mselin":
            ms.append(("predict_leaves", EXACT))
        return ms


class SDecisionTreeLogReg(Spec):
    frame_ok = True
    name = "DecisionTreeLogisticRegression"
    kind = "clf2"
    methods = (("predict", EXACT), ("predict_proba", TOL), ("decision_path", EXACT))
    rowwise = ("predict", "predict_proba", "decision_path")

    def draw(self, ch):
        return {
            "max_depth": ch.integer("w", 1, 4, "depth"),
            "min_samples_leaf": ch.integer("w", 1, 4, "msl"),
            "algo": ch.choice("w", ["auto", "none", "intercept_sort", "intercept_sort_always"], "algo"),
            # "If float, then min_samples_split is a fraction" (documented)
            "min_samples_split": ch.weighted("w", [(2, 3), (4, 1), (0.25, 2), (0.4, 1)], "mss"),
            "inner": ch.weighted("w", [("logreg", 3), ("warm", 1)], "inner"),
        }

    def fragile_rows(self, est, Xb):
        # fit_improve moves a node's intercept onto a training point: that
        # point then sits exactly on the node's threshold (probability 0.5 up
        # to an ulp) and which side it falls on depends on BLAS rounding.
        mask = numpy.zeros(Xb.shape[0], dtype=bool)
        stack = [est.tree_]
        while stack:
            node = stack.pop()
            prob = node.estimator.predict_proba(Xb)[:, 1]
            eps = 1e-4 if Xb.dtype == numpy.float32 else 1e-7
            mask |= numpy.abs(prob - node.threshold) < eps
            mask |= numpy.abs(prob - 0.5) < eps
            for ch in (node.above, node.below):
                if ch is not None:
                    stack.append(ch)
        return mask

    def build(self, cfg):
        return DecisionTreeLogisticRegression(
            estimator=warm_logreg() if cfg.get("inner") == "warm" else PLogReg(max_iter=60),
            max_depth=cfg["max_depth"],
            min_samples_leaf=cfg["min_samples_leaf"],
            min_samples_split=cfg.get("min_samples_split", 2),
            fit_improve_algo=cfg["algo"],
        )


class SKMeansL1L2(Spec):
    name = "KMeansL1L2"
    kind = "clu"
    methods = (("predict", EXACT), ("transform", TOL_DIST))
    rowwise = ("predict", "transform")
    n_min = 8

    def draw(self, ch):
        return {
            "k": ch.integer("w", 1, 4, "k"),
            "norm": ch.choice("w", ["L1", "L2"], "norm"),
            "random_state": ch.choice("w", [0, 3, None], "rs"),
            "n_init": ch.integer("w", 1, 3, "n_init"),
            "copy_x": ch.weighted("w", [(True, 4), (False, 1)], "copy_x"),
            "init": ch.choice("w", ["k-means++", "random", "array"], "init"),
        }

    def finalize(self, cfg, data):
        if cfg.get("init") == "array":
            # explicit initial centres: the first k training rows
            cfg["init_array"] = numpy.array(data.X[: cfg["k"]], dtype=float, copy=True)
        return cfg

    def build(self, cfg):
        init = cfg["init"]
        if init == "array":
            init = cfg["init_array"].copy() if "init_array" in cfg else "k-means++"
        return KMeansL1L2(n_clusters=cfg["k"], norm=cfg["norm"], random_state=cfg["random_state"], n_init=cfg["n_init"], copy_x=cfg["copy_x"], init=init, max_iter=30)

    def exempt_input_write(self, cfg):
        return not cfg["copy_x"]

    def fit_args(self, data, cfg=None):
        # non-uniform weights with norm L1 are documented as not implemented
        kw = {"sample_weight": data.w} if data.w is not None and (cfg or {}).get("norm") == "L2" else {}
        if data.y is not None:
            return (data.X, data.y), kw  # y is "ignored, present for API consistency"
        return (data.X,), kw


class SConstraintKMeans(Spec):
    name = "ConstraintKMeans"
    kind = "clu"
    methods = (("predict", EXACT), ("transform", TOL_DIST))
    rowwise = ("predict", "transform")
    n_min = 8

    def draw(self, ch):
        return {
            "k": ch.integer("w", 1, 4, "k"),
            "strategy": ch.choice("w", ["gain", "distance", "weights"], "strategy"),
            "random_state": ch.choice("w", [0, 3, None], "rs"),
            "kmeans0": ch.weighted("w", [(True, 3), (False, 1)], "kmeans0"),
            "max_iter": ch.choice("w", [100, 7, 20, 3, 5], "max_iter"),
            "copy_x": ch.weighted("w", [(True, 4), (False, 1)], "copy_x"),
            "balanced_predictions": ch.weighted("w", [(False, 3), (True, 1)], "balanced"),
            "history": ch.weighted("w", [(False, 3), (True, 1)], "history"),
            "learning_rate": ch.choice("w", [1.0, 0.5], "lr"),
        }

    def build(self, cfg):
        return ConstraintKMeans(
            n_clusters=cfg["k"],
            strategy=cfg["strategy"],
            random_state=cfg["random_state"],
            kmeans0=cfg["kmeans0"],
            max_iter=cfg["max_iter"],
            n_init=2,
            copy_x=cfg["copy_x"],
            history=cfg.get("history", False),
            learning_rate=cfg.get("learning_rate", 1.0),
            balanced_predictions=cfg.get("balanced_predictions", False),
        )

    def exempt_input_write(self, cfg):
        return not cfg["copy_x"]

    def fit_args(self, data, cfg=None):
        kw = {"sample_weight": data.w} if data.w is not None else {}
        if data.y is not None:
            return (data.X, data.y), kw  # y is "Ignored"
        return (data.X,), kw


class SClassifierAfterKMeans(Spec):
    name = "ClassifierAfterKMeans"
    kind = "clf"
    methods = (("predict", EXACT), ("predict_proba", TOL_DIST), ("decision_function", TOL_DIST))
    rowwise = ("predict", "predict_proba", "decision_function")
    n_min = 10

    def draw(self, ch):
        return {"C": ch.choice("w", [1.0, 0.3], "C"), "k": ch.integer("w", 1, 2, "k"), "rs": ch.choice("w", [0, 5, None], "rs"), "inner": ch.weighted("w", [("logreg", 3), ("warm", 1)], "inner")}

    def build(self, cfg):
        est = warm_logreg() if cfg.get("inner") == "warm" else PLogReg(C=cfg["C"], max_iter=80)
        return ClassifierAfterKMeans(estimator=est, clus=PKMeans(n_clusters=cfg["k"], n_init=2, random_state=cfg["rs"]))


class SIntervalRegressor(Spec):
    name = "IntervalRegressor"
    kind = "reg"
    methods = (("predict", TOL), ("predict_sorted", TOL), ("predict_all", TOL))
    rowwise = ("predict", "predict_sorted", "predict_all")
    has_n_jobs = True

    def draw(self, ch):
        return {
            "n_estimators": ch.integer("w", 1, 5, "n_est"),
            "alpha": ch.choice("w", [1.0, 0.7, 1.3], "alpha"),
            "n_jobs": ch.choice("w", [None, 2, 3], "n_jobs"),
            "local": ch.choice("w", ["linreg", "tag", "dummy"], "local"),
            "verbose": ch.weighted("w", [(False, 8), (True, 2), ("tqdm", 1)], "verbose"),
        }

    def build(self, cfg):
        local = {"linreg": PLinReg(), "tag": P.TagRegressor(), "dummy": PDummyReg()}[cfg["local"]]
        return IntervalRegressor(estimator=local, n_estimators=cfg["n_estimators"], alpha=cfg["alpha"], n_jobs=cfg["n_jobs"], verbose=cfg.get("verbose", False))


class SQuantileLinearRegression(Spec):
    name = "QuantileLinearRegression"
    kind = "reg"
    methods = (("predict", TOL),)
    rowwise = ("predict",)

    def draw(self, ch):
        return {
            "quantile": ch.choice("w", [0.5, 0.2, 0.8], "q"),
            "fit_intercept": ch.choice("w", [True, False], "fi"),
            "max_iter": ch.choice("w", [10, 3], "mi"),
            "copy_X": ch.weighted("w", [(True, 4), (False, 1)], "copy_X"),
            "positive": ch.weighted("w", [(False, 3), (True, 1)], "positive"),
            "delta": ch.choice("w", [0.0001, 0.01], "delta"),
        }

    frame_ok = True

    def build(self, cfg):
        return QuantileLinearRegression(
            quantile=cfg["quantile"], fit_intercept=cfg["fit_intercept"], max_iter=cfg["max_iter"], copy_X=cfg["copy_X"], positive=cfg.get("positive", False), delta=cfg.get("delta", 0.0001)
        )

    def exempt_input_write(self, cfg):
        return not cfg["copy_X"]


class STransformedTargetRegressor2(Spec):
    name = "TransformedTargetRegressor2"
    kind = "reg+"
    methods = (("predict", TOL),)
    rowwise = ("predict",)

    def draw(self, ch):
        return {
            "transformer": ch.choice("w", ["log", "log1p", "log(1+x)"], "tr"),
            "local": ch.choice("w", ["linreg", "tree", None], "local"),
            "as_object": ch.weighted("w", [(False, 3), (True, 1)], "tr-object"),
            # several target columns: predictions have one row per query row
            "targets": ch.weighted("w", [(1, 4), (2, 1), (3, 1)], "n-targets"),
        }

    def build(self, cfg):
        from mlinsights.mlmodel import FunctionReciprocalTransformer

        local = {"linreg": PLinReg(), "tree": PTreeReg(max_depth=2, random_state=0), None: None}[cfg["local"]]
        tr = FunctionReciprocalTransformer(cfg["transformer"]) if cfg.get("as_object") else cfg["transformer"]
        return TransformedTargetRegressor2(regressor=local, transformer=tr)

    def fit_args(self, data, cfg=None):
        args, kw = Spec.fit_args(self, data, cfg)
        t = (cfg or {}).get("targets", 1)
        if t > 1 and len(args) == 2 and numpy.asarray(args[1]).ndim == 1:
            y = numpy.asarray(args[1])
            args = (args[0], numpy.stack([y * (1 + 0.5 * j) + j for j in range(t)], axis=1))
        return args, kw


class STransformedTargetClassifier2(Spec):
    name = "TransformedTargetClassifier2"
    kind = "clf"
    methods = (("predict", EXACT), ("predict_proba", TOL))
    rowwise = ("predict", "predict_proba")

    def draw(self, ch):
        return {"local": ch.choice("w", ["logreg", "tree", None], "local"), "transformer": ch.choice("w", ["permute", "object-rs1", "object-rs7", "object-rs0"], "tr")}

    def build(self, cfg):
        from mlinsights.mlmodel import PermutationReciprocalTransformer

        local = {"logreg": PLogReg(max_iter=60), "tree": PTreeClf(max_depth=2, random_state=0), None: None}[cfg["local"]]
        tr = cfg.get("transformer", "permute")
        if tr != "permute":
            tr = PermutationReciprocalTransformer(random_state=int(tr[-1]))
        return TransformedTargetClassifier2(classifier=local, transformer=tr)


class SExtendedFeatures(Spec):
    name = "ExtendedFeatures"
    kind = "clu"
    methods = (("transform", TOL),)
    rowwise = ("transform",)
    weights = False

    def draw(self, ch):
        return {
            "kind": ch.choice("w", ["poly", "poly-slow"], "kind"),
            "degree": ch.integer("w", 1, 3, "deg"),
            "interaction_only": ch.choice("w", [False, True], "io"),
            "include_bias": ch.choice("w", [True, False], "ib"),
        }

    def build(self, cfg):
        return ExtendedFeatures(kind=cfg["kind"], poly_degree=cfg["degree"], poly_interaction_only=cfg["interaction_only"], poly_include_bias=cfg["include_bias"])

    def fit_args(self, data, cfg=None):
        return (data.X,), {}


class SPredictableTSNE(Spec):
    name = "PredictableTSNE"
    kind = "reg"
    methods = (("transform", TOL),)
    rowwise = ("transform",)
    n_min = 8

    def draw(self, ch):
        return {
            "normalizer": ch.choice("w", [None, "scaler"], "norm"),
            "estimator": ch.choice("w", ["linreg", "knn"], "est"),
            "normalize": ch.choice("w", [True, False], "normalize"),
            "keep": ch.choice("w", [False, True], "keep"),
            "perplexity": ch.choice("w", [None, 30.0, 5.0], "perplexity"),
        }

    def build(self, cfg):
        est = {"linreg": PLinReg(), "knn": PKNNReg(n_neighbors=2)}[cfg["estimator"]]
        return PredictableTSNE(
            normalizer=PScaler() if cfg["normalizer"] else None,
            transformer=PPCA(n_components=1) if cfg.get("perplexity") is None else PerplexityPCA(n_components=1, perplexity=cfg["perplexity"]),
            estimator=est,
            normalize=cfg["normalize"],
            keep_tsne_outputs=cfg["keep"],
        )


class SApproximateNMF(Spec):
    name = "ApproximateNMFPredictor"
    kind = "nonneg"
    methods = (("predict", TOL),)
    rowwise = ("predict",)
    weights = False
    n_min = 6

    def draw(self, ch):
        return {"n_components": 1, "force_positive": ch.choice("w", [False, True], "fp"), "random_state": ch.choice("w", [0, 4], "rs")}

    def build(self, cfg):
        return ApproximateNMFPredictor(n_components=cfg["n_components"], force_positive=cfg["force_positive"], random_state=cfg["random_state"], max_iter=400)

    def fit_args(self, data, cfg=None):
        return (data.X,), {}


class SCategoriesToIntegers(Spec):
    name = "CategoriesToIntegers"
    kind = "frame"
    methods = (("transform", EXACT),)
    rowwise = ("transform",)
    weights = False

    def draw(self, ch):
        return {
            "single": ch.choice("w", [False, True], "single"),
            "skip_errors": ch.weighted("w", [(True, 3), (False, 1)], "skip_errors"),
            # explicit column lists (a frame may lack one of them: fit then
            # raises, or skips it -- either way the parameter stays as given)
            "columns": ch.weighted("w", [(None, 3), (("a",), 1), (("a", "b"), 2), (("b", "a"), 1)], "columns"),
        }

    def build(self, cfg):
        cols = cfg.get("columns")
        return CategoriesToIntegers(columns=None if cols is None else list(cols), single=cfg["single"], skip_errors=cfg["skip_errors"])

    def data(self, ch, label="A"):
        return draw_frame(ch, label)

    def fit_args(self, data, cfg=None):
        return (data.X,), {}


class SSkBaseTransformLearner(Spec):
    name = "SkBaseTransformLearner"
    kind = "clf"
    methods = (("transform", TOL),)
    rowwise = ("transform",)

    def draw(self, ch):
        return {"model": ch.choice("w", ["logreg", "tree"], "model"), "method": ch.choice("w", [None, "predict_proba", "predict", "decision_function"], "method")}

    def build(self, cfg):
        model = {"logreg": PLogReg(max_iter=60), "tree": PTreeClf(max_depth=2, random_state=0)}[cfg["model"]]
        method = cfg["method"]
        if method == "decision_function" and cfg["model"] == "tree":
            method = "predict_proba"
        if method == "predict":
            method = "predict_proba"  # label output may be str: 2-D float outputs only here
        return SkBaseTransformLearner(model, method)


class SSkBaseTransformStacking(Spec):
    name = "SkBaseTransformStacking"
    kind = "clf"
    methods = (("transform", TOL),)
    rowwise = ("transform",)

    def draw(self, ch):
        return {"members": [ch.choice("w", ["logreg", "tree", "scaler"], "member") for _ in range(ch.integer("w", 1, 3, "nmembers"))]}

    def build(self, cfg):
        mk = {"logreg": lambda: PLogReg(max_iter=60), "tree": lambda: PTreeClf(max_depth=2, random_state=0), "scaler": lambda: PScaler()}
        return SkBaseTransformStacking([mk[m]() for m in cfg["members"]], "predict_proba")


class STransferTransformer(Spec):
    """TransferTransformer around an already fitted peer."""

    name = "TransferTransformer"
    kind = "reg"
    methods = (("transform", TOL),)
    rowwise = ("transform",)

    def draw(self, ch):
        return {
            "inner": ch.choice("w", ["linreg", "scaler", "tree"], "inner"),
            "copy_estimator": ch.choice("w", [True, False], "copy"),
            "trainable": ch.choice("w", [False, True], "trainable"),
            "pre_seed": ch.subseed("w", "pre"),
        }

    def build(self, cfg):
        rs = numpy.random.RandomState(cfg["pre_seed"])
        X0 = rs.randn(12, 3)
        y0 = X0 @ [1.0, -2.0, 0.5]
        inner = {"linreg": PLinReg(), "scaler": PScaler(), "tree": PTreeReg(max_depth=2, random_state=0)}[cfg["inner"]]
        inner.fit(X0, y0)
        return TransferTransformer(inner, copy_estimator=cfg["copy_estimator"], trainable=cfg["trainable"])

    def data(self, ch, label="A"):
        dt = draw_data(ch, "reg", label)
        # the pre-fitted inner model has 3 features
        rs = numpy.random.RandomState(dt.desc["data_seed"])
        n = dt.X.shape[0]
        X = U.unique_rows(rs, n, 3)
        Xp = numpy.vstack([X[:3], rs.randn(3, 3)])
        return Data("reg", X, X @ [0.5, 1.0, -1.0] + 0.1 * rs.randn(n), dt.w, Xp, dict(dt.desc, d=3))


SPECS = [
    SPiecewiseRegressor(),
    SPiecewiseClassifier(),
    SPiecewiseTreeRegressor(),
    SDecisionTreeLogReg(),
    SKMeansL1L2(),
    SConstraintKMeans(),
    SClassifierAfterKMeans(),
    SIntervalRegressor(),
    SQuantileLinearRegression(),
    STransformedTargetRegressor2(),
    STransformedTargetClassifier2(),
    SExtendedFeatures(),
    SPredictableTSNE(),
    SApproximateNMF(),
    SCategoriesToIntegers(),
    SSkBaseTransformLearner(),
    SSkBaseTransformStacking(),
    STransferTransformer(),
]
BY_NAME = {s.name: s for s in SPECS}

# fitted attributes that are part of "the model" (read with getattr, called
# when callable)
ATTRS = {
    "KMeansL1L2": ("cluster_centers_", "labels_", "inertia_", "n_iter_"),
    "ConstraintKMeans": ("cluster_centers_", "labels_", "inertia_", "n_iter_", "weights_"),
    "PiecewiseRegressor": ("n_estimators_", "mapping_", "leaves_"),
    "PiecewiseClassifier": ("n_estimators_", "mapping_", "leaves_", "classes_"),
    "PiecewiseTreeRegressor": ("betas_", "leaves_index_", "n_features_in_"),
    "DecisionTreeLogisticRegression": ("n_nodes_", "tree_depth_", "classes_", "get_leaves_index"),
    "ClassifierAfterKMeans": ("labels_",),
    "QuantileLinearRegression": ("coef_", "intercept_", "n_iter_"),
    "ExtendedFeatures": ("n_output_features_", "n_input_features_", "get_feature_names_out"),
    "TransformedTargetClassifier2": ("classes_",),
    "IntervalRegressor": ("n_estimators_",),
    "CategoriesToIntegers": ("_categories", "_fit_columns"),
    "ApproximateNMFPredictor": (),
    "PredictableTSNE": ("mean_", "inv_std_", "loss_"),
}


def observe_attrs(spec, est):
    out = {}
    for a in ATTRS.get(spec.name, ()):
        try:
            v = getattr(est, a)
            if callable(v):
                v = v()
        except Exception as e:  # noqa: BLE001
            out["attr:" + a] = ("raised", type(e).__name__, "")
            continue
        if isinstance(v, dict):
            v = repr(sorted(v.items(), key=repr))
        if isinstance(v, (list, tuple)):
            try:
                v = numpy.asarray(v)
            except Exception:  # noqa: BLE001
                v = repr(v)
        if isinstance(v, str) or v is None:
            v = numpy.array([repr(v)])
        out["attr:" + a] = numpy.asarray(v)
    return out


def observe(c, spec, est, cfg, Xp):
    """Calls every observable method on the probe batch; returns
    {method: ndarray | ('raised', type)}."""
    out = {}
    for m, tol in spec.observables(est, cfg):
        ok, r = U.sut(c, m, getattr(est, m), Xp)
        if not ok:
            out[m] = ("raised", type(r).__name__, str(r)[:200])
        else:
            if hasattr(r, "toarray"):
                r = r.toarray()
            if hasattr(r, "values") and hasattr(r, "columns"):
                r = r.values
            out[m] = numpy.asarray(r)
    return out


def same_outputs(spec, a, b, exact=False):
    """Compares two observe() results; returns list of differing methods."""
    tol = dict(spec.methods)
    bad = []
    for m in sorted(set(a) | set(b)):
        x, y = a.get(m), b.get(m)
        if isinstance(x, tuple) or isinstance(y, tuple):
            if not (isinstance(x, tuple) and isinstance(y, tuple) and x[:2] == y[:2]):
                bad.append(m)
            continue
        if x is None or y is None:
            bad.append(m)
            continue
        rt, at = (0.0, 0.0) if exact else tol.get(m, TOL)
        if not U.arrays_equal(x, y, rt, at):
            bad.append(m)
    return bad
