"""C13 -- target transformations are undone exactly by their reciprocal.

Permutation clauses: which permutation PermutationReciprocalTransformer /
TransformedTargetClassifier2('permute') draws is environment entropy
(numpy.random.permutation on the global RNG, no seed argument on the 'permute'
path).  The entropy seam *enumerates every permutation* of label sets of size
k <= 4 (quick) / 5 (thorough) and draws adversarially for larger k.

Function-name clauses (six predefined names): reached with recording peers;
they have no schedule / fault / entropy dimension and are counted separately.
DESIGN §4 C13.
"""
import itertools

import numpy
from sklearn.ensemble import VotingClassifier
from sklearn.linear_model import LinearRegression
from sklearn.naive_bayes import GaussianNB
from sklearn.neighbors import KNeighborsClassifier
from sklearn.tree import DecisionTreeClassifier, DecisionTreeRegressor

from dsim import ctx as C
from dsim import entropy as E
from dsim import peers as P
from props import common as U

from mlinsights.mlmodel import (
    FunctionReciprocalTransformer,
    PermutationReciprocalTransformer,
    TransformedTargetClassifier2,
    TransformedTargetRegressor2,
)

PROP = "C13"

PLinReg = P.make_peer(LinearRegression)
PTreeReg = P.make_peer(DecisionTreeRegressor)

# name -> (function, inverse, domain lower bound or None)
FUNCTIONS = {
    "log": (numpy.log, numpy.exp, 0.0),
    "exp": (numpy.exp, numpy.log, None),
    "log(1+x)": (lambda x: numpy.log(1 + x), lambda x: numpy.exp(x) - 1, -1.0),
    "log1p": (numpy.log1p, numpy.expm1, -1.0),
    "exp(x)-1": (lambda x: numpy.exp(x) - 1, lambda x: numpy.log(1 + x), None),
    "expm1": (numpy.expm1, numpy.log1p, None),
}


def _viol(c, seen, oracle, detail, msg):
    sig = (PROP, oracle) + tuple(str(d) for d in detail)
    if sig in seen:
        return
    seen.add(sig)
    c.violation(PROP, oracle, sig, msg + " | scenario: " + repr(c.scenario))


def _labels(ltype, k):
    if ltype == "int":
        return numpy.arange(k)
    if ltype == "int-arbitrary":
        return numpy.array([-7, 3, 12, 40, 41, 100, 250, 251, 999])[:k]
    if ltype == "str":
        # unequal lengths, and the first ones are the shortest: an output
        # buffer sized after one label would truncate the others
        return numpy.array(["no", "yes", "maybe", "x", "versicolor", "ab", "setosa", "q", "virginica"])[:k]
    if ltype == "float":
        return numpy.array([0.0, 1.0, 2.0, 5.0, 7.0, 8.0, 11.0, 12.0, 20.0])[:k]
    if ltype == "float-close":
        # distinct float64 labels that agree to single precision (sensor codes,
        # timestamps): they are different labels
        return 1000.0 + numpy.arange(9)[:k] * 1e-5
    raise ValueError(ltype)


def _target_values(ch, rs, name, n):
    lo = FUNCTIONS[name][2]
    mag = rs.rand(n) * 4.0 + 0.05
    if lo is None:
        sign = numpy.where(rs.rand(n) < 0.5, -1.0, 1.0)
        return mag * sign
    if lo == -1.0:
        return numpy.where(rs.rand(n) < 0.3, -0.9 * rs.rand(n) * 0.9 - 0.05, mag)
    return mag


# ---------------------------------------------------------------------------
def _run_function(c, seen):
    ch = c.ch
    name = ch.choice("w", sorted(FUNCTIONS), "fct")
    n = ch.integer("w", 3, 25, "n")
    d = ch.integer("w", 1, 3, "d")
    seed = ch.subseed("w", "data")
    rs = numpy.random.RandomState(seed)
    X = U.unique_rows(rs, n, d)
    y = _target_values(ch, rs, name, n)
    tiny = name in ("log1p", "expm1") and ch.boolean("w", 0.5, "tiny")
    if tiny:
        # numpy.log1p / numpy.expm1 exist for targets near zero, where the
        # naive formulas lose their digits: the round trip stays tight there
        k = max(1, n // 3)
        y[:k] = numpy.array([1e-12, -3e-11, 2e-9, 1e-15, -1e-7, 5e-6, 1e-10, -2e-13])[numpy.arange(k) % 8]
        c.probe("targets_near_zero")
    with_nan = ch.boolean("w", 0.3, "nan")
    c.scenario.update({"clause": "function-name", "fct": name, "n": n, "d": d, "nan": with_nan, "data_seed": seed})
    c.signature = ["function", name, with_nan, n // 4, d]
    c.probe("function_name_clause")
    f, finv, _ = FUNCTIONS[name]
    yy = y.copy()
    if with_nan:
        yy[ch.draw("w", n, "nan-pos")] = numpy.nan
    ok, t = U.sut(c, "construct", FunctionReciprocalTransformer, name)
    if not ok:
        _viol(c, seen, "raised", ("construct", name, type(t).__name__), "FunctionReciprocalTransformer(%r) raised %s" % (name, U.short_exc(t)))
        return
    ok, r = U.sut(c, "fit", t.fit, X, yy)
    if not ok:
        _viol(c, seen, "raised", ("fit", name, type(r).__name__), "fit raised %s" % U.short_exc(r))
        return
    ycopy = yy.copy()
    ok, r = U.sut(c, "transform", t.transform, X, yy)
    if not ok:
        _viol(c, seen, "raised", ("transform", name, type(r).__name__), "transform raised %s" % U.short_exc(r))
        return
    X2, y2 = r
    if X2 is not X:
        _viol(c, seen, "features-touched", ("function",), "transform did not return the features untouched")
    if not numpy.array_equal(ycopy, yy, equal_nan=True):
        _viol(c, seen, "targets-modified", ("function",), "transform modified the caller's targets in place")
    if not numpy.allclose(y2, f(yy), rtol=1e-12, atol=0, equal_nan=True):
        _viol(c, seen, "function", (name,), "transform does not apply %s" % name)
    ok, inv = U.sut(c, "get_fct_inv", t.get_fct_inv)
    if not ok:
        _viol(c, seen, "raised", ("get_fct_inv", name, type(inv).__name__), "get_fct_inv raised %s" % U.short_exc(inv))
        return
    ok, r = U.sut(c, "inv.transform", inv.transform, X2, y2)
    if not ok:
        _viol(c, seen, "raised", ("inv.transform", name, type(r).__name__), "the reciprocal's transform raised %s" % U.short_exc(r))
        return
    X3, y3 = r
    c.log.ev("result", "fct", name, C.ahash(numpy.asarray(y3)))
    if not numpy.allclose(y3, yy, rtol=1e-9, atol=(0.0 if tiny else 1e-12), equal_nan=True):
        diff = numpy.abs(numpy.asarray(y3, dtype=float) - yy)
        diff = numpy.where(numpy.isnan(diff) & ~numpy.isnan(yy), numpy.inf, diff)
        i = int(numpy.argmax(numpy.nan_to_num(diff, nan=-1.0, posinf=1e308)))
        _viol(
            c,
            seen,
            "round-trip",
            ("function", name),
            "%s then its reciprocal does not give back the targets: y[%d]=%r came back as %r (reciprocal is named %r)" % (name, i, yy[i], numpy.asarray(y3)[i], getattr(inv, "fct", None)),
        )
    if X3 is not X:
        _viol(c, seen, "features-touched", ("function-inverse",), "the reciprocal's transform did not return the features untouched")
    # the parameter is changed after fit, without refitting (a grid search
    # preparing its next candidate): transform and the reciprocal handed out
    # by get_fct_inv must still belong together
    other = ch.choice("w", sorted(FUNCTIONS), "fct-after")
    if other != name:
        ypos = numpy.abs(y) + 0.05  # in the domain of every predefined function
        ok, t2 = U.sut(c, "construct", FunctionReciprocalTransformer, name)
        ok = ok and U.sut(c, "fit", t2.fit, X, ypos)[0]
        if ok:
            U.sut(c, "set_params(fct)", t2.set_params, fct=other)
            ok, r = U.sut(c, "transform(after set_params)", t2.transform, X, ypos)
            ok2, inv2 = U.sut(c, "get_fct_inv(after set_params)", t2.get_fct_inv)
            if ok and ok2:
                ok3, r3 = U.sut(c, "inv.transform(after set_params)", inv2.transform, X, r[1])
                if ok3 and not numpy.allclose(numpy.asarray(r3[1], dtype=float), ypos, rtol=1e-9, atol=1e-12):
                    _viol(
                        c,
                        seen,
                        "round-trip",
                        ("function", "parameter-changed-after-fit"),
                        "fitted with %r, then set_params(fct=%r) without refitting: transform followed by the reciprocal from get_fct_inv does not give back the targets (%r -> %r)" % (name, other, ypos[:3].tolist(), numpy.asarray(r3[1])[:3].tolist()),
                    )
                c.probe("parameter_changed_after_fit")
    # regressor wrapper: trained on f(y), predicts f^-1 of what the regressor predicts
    local = PLinReg() if ch.boolean("w", 0.5, "local") else PTreeReg(max_depth=2, random_state=0)
    # the transformation given by name, or as an object the caller keeps
    tr_obj = FunctionReciprocalTransformer(name) if ch.boolean("w", 0.4, "transformer-object") else None
    tt = TransformedTargetRegressor2(regressor=local, transformer=name if tr_obj is None else tr_obj)
    w = numpy.round(rs.rand(n) + 0.5, 3) if ch.boolean("w", 0.5, "weights") else None
    if w is None:
        ok, r = U.sut(c, "tt.fit", tt.fit, X, y)
    else:
        c.probe("regressor_with_sample_weight")
        ok, r = U.sut(c, "tt.fit", tt.fit, X, y, sample_weight=w)
    if not ok:
        _viol(c, seen, "raised", ("regressor.fit", name, type(r).__name__), "TransformedTargetRegressor2.fit raised %s" % U.short_exc(r))
        return
    if r is not tt:
        _viol(c, seen, "fit-returns-self", ("regressor",), "fit did not return the estimator")
    reg = tt.regressor_
    if not hasattr(reg, "rec_y_") or not numpy.allclose(reg.rec_y_, f(y), rtol=1e-12) or not numpy.array_equal(reg.rec_X_, X):
        _viol(c, seen, "regressor-training", (name, "weighted" if w is not None else "unweighted"), "the inner regressor was not trained on (X, %s(y))" % name)
    elif (w is None) != (reg.rec_w_ is None) or (w is not None and not numpy.array_equal(reg.rec_w_, w)):
        _viol(c, seen, "regressor-training", (name, "weights"), "the inner regressor did not receive the caller's sample weights")
    Xq = numpy.vstack([X[:3], rs.randn(3, d) * 0.5])
    ok, p = U.sut(c, "tt.predict", tt.predict, Xq)
    if not ok:
        _viol(c, seen, "raised", ("regressor.predict", name, type(p).__name__), "TransformedTargetRegressor2.predict raised %s" % U.short_exc(p))
        return
    inner = reg.predict(Xq)
    lo = FUNCTIONS[{"log": "exp", "exp": "log", "log(1+x)": "exp(x)-1", "log1p": "expm1", "exp(x)-1": "log(1+x)", "expm1": "log1p"}[name]][2]
    valid = numpy.ones(len(inner), dtype=bool) if lo is None else inner > lo + 1e-6
    want = finv(inner[valid])
    c.log.ev("result", "reg", C.ahash(numpy.asarray(p)))
    if tiny:
        # the regressor's own predictions may be anywhere; compare relatively
        pass
    if not numpy.allclose(numpy.asarray(p)[valid], want, rtol=1e-9, atol=(1e-300 if tiny else 1e-12), equal_nan=True):
        _viol(c, seen, "regressor-inverse", (name,), "predict is not the inverse of %s applied to the inner regressor's prediction: %r vs %r" % (name, numpy.asarray(p)[valid][:3].tolist(), want[:3].tolist()))
    if tr_obj is not None:
        # the caller goes on using the transformer object they own (another
        # function, another fit): the fitted wrapper is not affected
        other2 = [q for q in sorted(FUNCTIONS) if q != name][ch.draw("w", len(FUNCTIONS) - 1, "fct-owner")]
        U.sut(c, "owner.set_params(fct)", tr_obj.set_params, fct=other2)
        U.sut(c, "owner.fit", tr_obj.fit, X, numpy.abs(y) + 0.05)
        ok, p2 = U.sut(c, "tt.predict(after the owner refitted the transformer)", tt.predict, Xq)
        if not ok or not numpy.allclose(numpy.asarray(p2), numpy.asarray(p), rtol=0, atol=0, equal_nan=True):
            _viol(c, seen, "regressor-inverse", (name, "transformer-object-shared"), "after the caller reconfigured and refitted the transformer object passed as a parameter (%r -> %r), the fitted wrapper predicts something else: %r vs %r" % (name, other2, None if not ok else numpy.asarray(p2)[:3].tolist(), numpy.asarray(p)[:3].tolist()))
        c.probe("transformer_object_reused_by_its_owner")


# ---------------------------------------------------------------------------
def _make_clf(name):
    if name == "knn1":
        return KNeighborsClassifier(n_neighbors=1), 0.0
    if name == "gnb":
        return GaussianNB(), 1e-8
    if name == "vote":
        # a composite learner: its fit takes sample_weight through **fit_params
        return VotingClassifier([("g", GaussianNB()), ("t", DecisionTreeClassifier(max_depth=3, random_state=0))], voting="soft"), 1e-8
    return DecisionTreeClassifier(max_depth=3, random_state=0), 1e-9


def _learner_is_the_one_that_differs(c, tt, learner_name, X, y, w, Xq, pp):
    """The equivariance clause is stated for label-permutation-equivariant
    learners.  A learner whose split selection or argmax meets a floating-point
    tie is not equivariant on that data (summing over classes in another order
    moves an impurity by one ulp).  Decided exactly: a plain classifier trained
    on the *permuted* codes must be what the wrapper holds, and the wrapper's
    columns must be that classifier's columns mapped back."""
    try:
        codes = numpy.asarray(tt.transformer_.transform(X, y)[1])
        ref, _ = _make_clf(learner_name)
        ref.fit(X, codes, **({} if w is None else {"sample_weight": w}))
        pr = ref.predict_proba(Xq)
        rcls = [int(v) for v in ref.classes_.tolist()]
        mapping = {str(k): int(v) for k, v in tt.transformer_.permutation_.items()}
        cls = numpy.asarray(tt.classes_)
        for j in range(pp.shape[1]):
            if not numpy.allclose(pp[:, j], pr[:, rcls.index(mapping[str(cls[j])])], rtol=0, atol=1e-12):
                return False
        c.probe("learner_not_equivariant_on_this_data")
        return True
    except Exception:  # noqa: BLE001
        return False


def _check_permutation(c, seen, X, y, labels, perm, learner_name, Xq, how, w=None):
    """One forced permutation: transformer round trip + classifier wrapper."""
    k = len(labels)
    ent = c.entropy
    ent.perm_hook = (lambda n: perm if n == k else None) if perm is not None else None
    ident = perm is not None and list(perm) == list(range(k))
    if perm is not None and not ident:
        c.probe("non_identity_permutation")
    # ---- transformer level
    t = PermutationReciprocalTransformer()
    if perm is not None and k >= 2 and c.ch.boolean("w", 0.3, "transformer-fitted-before"):
        # the same transformer object learned another permutation before, and
        # its reciprocal was asked for: nothing of that is left after fit
        prev = list(perm[1:]) + list(perm[:1])
        ent.perm_hook = lambda n, p=prev: p if n == k else None
        ok0, _ = U.sut(c, "perm.fit(before)", t.fit, None, y)
        old_inv = old_codes = None
        if ok0:
            ok0, inv0 = U.sut(c, "perm.get_fct_inv(before)", t.get_fct_inv)
            if ok0:
                okc, rc = U.sut(c, "perm.transform(before)", t.transform, X, y)
                if okc:
                    old_inv, old_codes = inv0, numpy.asarray(rc[1]).copy()
                    U.sut(c, "perm.inv.transform(before)", inv0.transform, X, old_codes)
        ent.perm_hook = lambda n: perm if n == k else None
        c.probe("transformer_fitted_before_with_another_permutation")
        history_before = (old_inv, old_codes)
    ok, r = U.sut(c, "perm.fit", t.fit, None, y)
    if not ok:
        _viol(c, seen, "raised", ("perm.fit", type(r).__name__, how), "PermutationReciprocalTransformer.fit raised %s" % U.short_exc(r))
        return
    old_inv, old_codes = locals().get("history_before", (None, None))
    if old_inv is not None and not (y.dtype.kind == "f" and numpy.any(y != y)):
        # the reciprocal obtained before the refit is still a fitted
        # transformer of its own: it and *its* reciprocal undo each other
        ok1, r1 = U.sut(c, "old reciprocal.transform", old_inv.transform, X, old_codes)
        ok2, back = U.sut(c, "old reciprocal.get_fct_inv", old_inv.get_fct_inv)
        if ok1 and ok2:
            ok3, r3 = U.sut(c, "reciprocal of the old reciprocal.transform", back.transform, X, numpy.asarray(r1[1]))
            if not ok3 or not numpy.array_equal(numpy.asarray(r3[1]), old_codes):
                _viol(c, seen, "round-trip", ("permutation", "reciprocal-of-an-earlier-reciprocal"), "a reciprocal obtained before the transformer was fitted again, followed by its own get_fct_inv(), does not give the targets back (%s)" % (U.short_exc(r3) if not ok3 else "%r -> %r" % (old_codes[:5].tolist(), numpy.asarray(r3[1])[:5].tolist())))
        c.probe("reciprocal_of_an_earlier_reciprocal")
    ycopy = y.copy()
    ok, r = U.sut(c, "perm.transform", t.transform, X, y)
    if not ok:
        _viol(c, seen, "raised", ("perm.transform", type(r).__name__, str(y.dtype.kind)), "transform raised %s" % U.short_exc(r))
        return
    X2, y2 = r
    if X2 is not X:
        _viol(c, seen, "features-touched", ("permutation",), "transform did not return the features untouched")
    if not U.arrays_equal(ycopy, y):
        _viol(c, seen, "targets-modified", ("permutation",), "transform modified the caller's targets")
    mapping = t.permutation_
    if sorted(int(v) for v in mapping.values()) != list(range(len(mapping))):
        _viol(c, seen, "not-a-permutation", (), "permutation_ values are not a permutation of 0..k-1: %r" % (mapping,))
    ok, inv = U.sut(c, "perm.get_fct_inv", t.get_fct_inv)
    if not ok:
        _viol(c, seen, "raised", ("perm.get_fct_inv", type(inv).__name__), "get_fct_inv raised %s" % U.short_exc(inv))
        return
    ok, r = U.sut(c, "perm.inv.transform", inv.transform, X2, numpy.asarray(y2))
    if not ok:
        _viol(
            c,
            seen,
            "raised",
            ("perm.inv.transform", type(r).__name__, "labels=" + str(y.dtype.kind)),
            "the reciprocal's transform raised %s on the permuted targets %r" % (U.short_exc(r), numpy.asarray(y2)[:5].tolist()),
        )
    else:
        y3 = numpy.asarray(r[1])
        back = [str(a) for a in y3.tolist()] if y.dtype.kind in "US" else y3.tolist()
        orig = [str(a) for a in y.tolist()] if y.dtype.kind in "US" else y.tolist()
        same = len(back) == len(orig) and all((a == b) or (isinstance(a, float) and isinstance(b, float) and a != a and b != b) for a, b in zip(back, orig))
        if not same:
            _viol(
                c,
                seen,
                "round-trip",
                ("permutation", "labels=" + str(y.dtype.kind), "identity" if ident else "non-identity"),
                "permuting the targets and applying the reciprocal does not give them back: %r -> %r -> %r (permutation %r)" % (orig[:6], numpy.asarray(y2).tolist()[:6], back[:6], mapping),
            )
    # ---- several integer target columns stored column-major (what
    #      DataFrame[[a, b]].values gives): element-wise round trip
    if y.dtype.kind in "iu" and len(y) >= 2:
        Y2 = numpy.asfortranarray(numpy.stack([y, y[::-1]], axis=1))
        ok, r2 = U.sut(c, "perm.transform(2-D)", t.transform, X, Y2)
        if ok:
            Y2p = numpy.asarray(r2[1])
            okb, rb = U.sut(c, "perm.inv.transform(2-D)", inv.transform, X, Y2p) if "inv" in dir() else (False, None)
            want2 = numpy.array([[mapping[v] for v in row] for row in Y2.tolist()])
            if Y2p.shape != Y2.shape or not numpy.array_equal(Y2p, want2):
                _viol(c, seen, "round-trip", ("permutation", "2-D-column-major", "forward"), "a column-major 2-D integer target is not permuted element-wise: %r -> %r, expected %r" % (Y2.tolist()[:3], Y2p.tolist()[:3], want2.tolist()[:3]))
            elif okb and not numpy.array_equal(numpy.asarray(rb[1]), Y2):
                _viol(c, seen, "round-trip", ("permutation", "2-D-column-major", "inverse"), "a column-major 2-D integer target does not come back through the reciprocal")
            c.probe("two_dimensional_column_major_targets")
    # ---- classifier wrapper
    if numpy.any(y != y) if y.dtype.kind == "f" else False:
        return
    clf, tol = _make_clf(learner_name)
    plain, _ = _make_clf(learner_name)
    wkw = {} if w is None else {"sample_weight": w}
    ok, r = U.sut(c, "plain.fit", plain.fit, X, y, **wkw)
    if not ok:
        c.probe("plain_classifier_rejected_data")
        return
    tt = TransformedTargetClassifier2(classifier=clf, transformer="permute")
    ok, r = U.sut(c, "ttc.fit", tt.fit, X, y, **wkw)
    if not ok:
        _viol(c, seen, "raised", ("classifier.fit", type(r).__name__, "labels=" + str(y.dtype.kind)), "TransformedTargetClassifier2.fit raised %s" % U.short_exc(r))
        return
    ok, p = U.sut(c, "ttc.predict", tt.predict, Xq)
    if not ok:
        _viol(
            c,
            seen,
            "raised",
            ("classifier.predict", type(p).__name__, "labels=" + str(y.dtype.kind)),
            "TransformedTargetClassifier2.predict raised %s (labels %r, permutation %r)" % (U.short_exc(p), labels.tolist(), tt.transformer_.permutation_),
        )
        return
    p = numpy.asarray(p)
    want = plain.predict(Xq)
    labset = set(str(a) for a in labels.tolist())
    if not set(str(a) for a in p.tolist()) <= labset:
        _viol(c, seen, "labels", ("not-original", "labels=" + str(y.dtype.kind)), "predict returned %r, not original labels %r" % (sorted(set(p.tolist()))[:5], labels.tolist()))
        return
    # a learner is only equivariant where its decision is not a tie
    pw0 = numpy.sort(plain.predict_proba(Xq), axis=1)
    decided = (pw0[:, -1] - pw0[:, -2] > 1e-9) if pw0.shape[1] > 1 else numpy.ones(len(Xq), dtype=bool)
    not_equivariant_here = False
    if [str(a) for a in p[decided].tolist()] != [str(a) for a in want[decided].tolist()]:
        okp, pp_try = U.sut(c, "ttc.predict_proba", tt.predict_proba, Xq)
        not_equivariant_here = okp and learner_name in ("tree", "vote") and _learner_is_the_one_that_differs(c, tt, learner_name, X, y, w, Xq, numpy.asarray(pp_try))
    if not not_equivariant_here and [str(a) for a in p[decided].tolist()] != [str(a) for a in want[decided].tolist()]:
        _viol(
            c,
            seen,
            "equivariance",
            ("predict", learner_name, "identity" if ident else "non-identity"),
            "predictions differ from the plain %s classifier's under permutation %r: %r vs %r" % (learner_name, tt.transformer_.permutation_, p.tolist()[:8], want.tolist()[:8]),
        )
    ok, pp = U.sut(c, "ttc.predict_proba", tt.predict_proba, Xq)
    if not ok:
        _viol(c, seen, "raised", ("classifier.predict_proba", type(pp).__name__, "labels=" + str(y.dtype.kind)), "predict_proba raised %s" % U.short_exc(pp))
        return
    pp = numpy.asarray(pp)
    try:
        cls = numpy.asarray(tt.classes_)
    except Exception as e:  # noqa: BLE001
        _viol(c, seen, "raised", ("classes_", type(e).__name__, "labels=" + str(y.dtype.kind)), "classes_ raised %s" % U.short_exc(e))
        return
    pw = plain.predict_proba(Xq)
    pcls = [str(a) for a in plain.classes_.tolist()]
    c.log.ev("result", "clf", C.ahash(pp))
    if pp.shape != pw.shape or len(cls) != pp.shape[1] or sorted(str(a) for a in cls.tolist()) != sorted(pcls):
        _viol(c, seen, "classes", ("shape-or-set",), "classes_ %r / probabilities %r do not match the original label set %r" % (cls.tolist(), pp.shape, pcls))
        return
    for j in range(pp.shape[1]):
        jj = pcls.index(str(cls[j]))
        if not numpy.allclose(pp[:, j], pw[:, jj], rtol=0, atol=max(tol, 1e-12)):
            if not_equivariant_here or (learner_name in ("tree", "vote") and _learner_is_the_one_that_differs(c, tt, learner_name, X, y, w, Xq, pp)):
                break  # the wrapper is exactly its learner trained on the permuted codes
            _viol(
                c,
                seen,
                "probability-columns",
                (learner_name, "identity" if ident else "non-identity"),
                "probability column %d is labelled %r by classes_ but differs from the plain classifier's probabilities for that label (permutation %r)" % (j, cls[j], tt.transformer_.permutation_),
            )
            break


def _run_permutation(c, seen, tier):
    ch = c.ch
    kmax_enum = 4 if tier == "quick" else 5
    k = ch.weighted("w", [(2, 3), (3, 4), (4, 3), (5, 2), (6, 1), (7, 1), (9, 1)], "k")
    ltype = ch.weighted("w", [("int", 3), ("int-arbitrary", 3), ("str", 3), ("float", 3), ("float-close", 1)], "ltype")
    learner = ch.choice("w", ["knn1", "gnb", "tree", "vote"], "learner")
    n = ch.integer("w", 3 * k, 3 * k + 20, "n")
    d = ch.integer("w", 1, 3, "d")
    seed = ch.subseed("w", "data")
    rs = numpy.random.RandomState(seed)
    labels = _labels(ltype, k)
    X = U.unique_rows(rs, n, d)
    lab = numpy.concatenate([numpy.arange(k)] * 3 + [rs.randint(0, k, n - 3 * k)])
    # class-dependent shift so that learners have something to learn
    X = X + numpy.asarray(lab)[:, None] * 0.75
    order = rs.permutation(n)
    X, lab = numpy.ascontiguousarray(X[order]), lab[order]
    y = labels[lab]
    Xq = numpy.vstack([X[:4], rs.randn(4, d) + 1.0])
    # weighted fits (learners that take weights): the wrapper equals the plain
    # classifier trained with the same weights
    wts = numpy.round(rs.rand(n) * 3 + 0.2, 3) if learner != "knn1" and ch.boolean("w", 0.4, "weights") else None
    if wts is not None:
        c.probe("classifier_with_sample_weight")
    with_nan = ltype in ("float", "float-close") and ch.boolean("w", 0.3, "nan")
    c.scenario.update({"clause": "permutation", "k": k, "labels": ltype, "learner": learner, "n": n, "d": d, "nan": with_nan, "data_seed": seed})
    c.signature = ["permutation", k, ltype, learner, with_nan, n // 4, d]
    if ltype == "str":
        c.probe("labels_str")
    c.entropy = E.Entropy("adversarial")
    numpy.random.seed(ch.subseed("r", "global-seed") % (2**32 - 1))
    if with_nan:
        yn = y.copy()
        yn[ch.draw("w", n, "nan-pos")] = numpy.nan
    if k <= kmax_enum:
        c.scenario["permutations"] = "all %d" % len(list(itertools.permutations(range(k))))
        c.probe("exhaustive_permutations_k%d" % k)
        for perm in itertools.permutations(range(k)):
            _check_permutation(c, seen, X, yn if with_nan else y, labels, list(perm), learner, Xq, "enumerated", wts)
    else:
        draws = 6
        c.scenario["permutations"] = "%d adversarial draws" % draws
        for _ in range(draws):
            _check_permutation(c, seen, X, yn if with_nan else y, labels, None, learner, Xq, "drawn", wts)
    # ---- one classifier object fitted twice, with a query in between: the
    #      second fit draws another permutation; nothing of the first may remain
    if k <= kmax_enum and k >= 3:
        perms = list(itertools.permutations(range(k)))
        pa = perms[ch.draw("r", len(perms), "refit-perm-a")]
        pb = perms[ch.draw("r", len(perms), "refit-perm-b")]
        clf, tol = _make_clf(learner)
        plain, _ = _make_clf(learner)
        tt = TransformedTargetClassifier2(classifier=clf, transformer="permute")
        yy2 = y
        c.entropy.perm_hook = lambda n, p=list(pa): p if n == k else None
        ok, r = U.sut(c, "ttc.fit(first)", tt.fit, X, yy2)
        if ok:
            U.sut(c, "ttc.predict(first)", tt.predict, Xq)
            U.sut(c, "ttc.predict_proba(first)", tt.predict_proba, Xq)
            try:
                tt.classes_
            except Exception:  # noqa: BLE001
                pass
            c.entropy.perm_hook = lambda n, p=list(pb): p if n == k else None
            if ch.boolean("f", 0.3, "refit-fails"):
                # the second fit is rejected by the inner classifier (NaN in X):
                # a caller that catches the error and keeps predicting must get
                # an error or the answers of the model it still has
                Xbad = X.copy()
                Xbad[0, 0] = numpy.nan
                okf, rf = U.sut(c, "ttc.fit(second, rejected)", tt.fit, Xbad, yy2)
                if not okf:
                    c.faults_fired["invalid:nan-X"] += 1
                    okq, pq = U.sut(c, "ttc.predict(after failed refit)", tt.predict, Xq)
                    okp0, _ = U.sut(c, "plain.fit", plain.fit, X, yy2)
                    if okq and okp0:
                        want0 = plain.predict(Xq)
                        pw00 = numpy.sort(plain.predict_proba(Xq), axis=1)
                        dec0 = pw00[:, -1] - pw00[:, -2] > 1e-9
                        if [str(a) for a in numpy.asarray(pq)[dec0].tolist()] != [str(a) for a in want0[dec0].tolist()]:
                            _viol(
                                c,
                                seen,
                                "equivariance",
                                ("predict", learner, "after-failed-refit"),
                                "after a refit that the inner classifier rejected, predict silently returns labels that are neither an error nor those of the model fitted before: %r vs %r" % (numpy.asarray(pq).tolist()[:8], want0.tolist()[:8]),
                            )
                    c.probe("predict_after_failed_refit")
                c.entropy.perm_hook = None
                return
            ok, r = U.sut(c, "ttc.fit(second)", tt.fit, X, yy2)
            ok2, p2 = U.sut(c, "ttc.predict(second)", tt.predict, Xq)
            okp, _ = U.sut(c, "plain.fit", plain.fit, X, yy2)
            c.probe("classifier_refitted_with_another_permutation")
            if ok and ok2 and okp:
                want = plain.predict(Xq)
                pw0 = numpy.sort(plain.predict_proba(Xq), axis=1)
                decided = pw0[:, -1] - pw0[:, -2] > 1e-9
                if [str(a) for a in numpy.asarray(p2)[decided].tolist()] != [str(a) for a in want[decided].tolist()]:
                    _viol(
                        c,
                        seen,
                        "equivariance",
                        ("predict", learner, "after-refit"),
                        "after fit / predict / fit with another permutation (%r then %r) the classifier no longer agrees with the plain classifier: %r vs %r" % (pa, pb, numpy.asarray(p2).tolist()[:8], want.tolist()[:8]),
                    )
        c.entropy.perm_hook = None
    # documented seed argument of the transformer: sampled
    t = PermutationReciprocalTransformer(random_state=ch.integer("w", 0, 50, "rs"))
    c.entropy.perm_hook = None
    ok, r = U.sut(c, "perm.fit(rs)", t.fit, None, y)
    if ok:
        ok, r = U.sut(c, "perm.transform(rs)", t.transform, X, y)
        if ok:
            ok2, inv = U.sut(c, "inv", t.get_fct_inv)
            if ok2:
                ok3, r3 = U.sut(c, "inv.transform", inv.transform, X, numpy.asarray(r[1]))
                if ok3 and [str(a) for a in numpy.asarray(r3[1]).tolist()] != [str(a) for a in y.tolist()]:
                    _viol(c, seen, "round-trip", ("permutation", "labels=" + str(y.dtype.kind), "random_state"), "round trip with random_state failed")


def run(c, index, tier):
    ch = c.ch
    seen = set()
    c.scenario = {}
    c.fault_plan = None
    c.entropy = E.Entropy("adversarial")
    clause = ch.weighted("w", [("permutation", 3), ("function", 1)], "clause")
    if clause == "function":
        _run_function(c, seen)
        c.nontrivial = True
    else:
        _run_permutation(c, seen, tier)
        c.nontrivial = bool(c.seam_calls)
