"""C02 -- fit/predict/transform/score never alter hyper-parameters or caller
data, fit returns self; also when fit raises (invalid data rejected by the
parent class, the k-th inner estimator failing on any bucket / resample /
node, under threads too) -- and a later successful fit gives the same model as
a fresh estimator.

One run = one scenario (class, configuration, data, history template); a dry
run counts the fault sites N of fit and *every* single site is failed once
(exhaustive single-fault enumeration per scenario), plus every applicable
invalid-data kind.  DESIGN §4 C02.
"""
import numpy

from dsim import ctx as C
from dsim import boundary as B
from dsim import entropy as E
from dsim import peers as P
from props import common as U
from props import registry as R

PROP = "C02"

TEMPLATES = [
    # (name, weight) ; F = fit failing at an injected site / invalid data,
    # O = successful fit, P = predict/transform/..., S = score
    ("F,O", 5),
    ("O,F,P,O", 3),
    ("O,P,S,O", 2),
    ("F,F,O", 2),
    ("O,P,F,O", 1),
    # Q = predict/transform with an inner estimator failing at a predict-time site
    ("O,P,Q,P", 2),
]

INVALID = ["nan-X", "inf-X", "nan-y", "rows-mismatch", "too-few", "1d-X", "single-class", "empty", "bad-weights", "tiny-negative"]


def _invalid_data(kind, spec, cfg, data):
    """Returns (args, kwargs, arrays_to_watch) or None when not applicable."""
    X, y, w = data.X, data.y, data.w
    if data.kind == "frame":
        if kind == "empty":
            Xe = X.iloc[:0]
            return (Xe,), {}, [Xe]
        return None
    X = X.copy()
    y = None if y is None else y.copy()
    w = None if w is None else w.copy()
    n = X.shape[0]
    if kind in ("nan-X", "inf-X") and X.dtype.kind != "f":
        X = X.astype(numpy.float64)  # integer features cannot hold NaN / inf
    if kind == "nan-X":
        X[n // 2, 0] = numpy.nan
    elif kind == "inf-X":
        X[n // 3, -1] = numpy.inf
    elif kind == "tiny-negative":
        # rounding noise such as 0.3 - (0.1 + 0.2): rejected by estimators that
        # want non-negative data, plain data for the others; never "cleaned" in
        # the caller's array
        if X.dtype.kind != "f":
            return None
        X[n // 2, 0] = -5.5e-17
        X[0, -1] = -1e-18
    elif kind == "nan-y":
        if y is None or y.dtype.kind != "f":
            return None
        if data.kind in ("clf", "clf2"):
            # a NaN *class label* is not a controllable input: CPython >= 3.10
            # hashes a NaN by the address of its object, so ``set(y)`` /
            # ``sorted(set(y))`` inside the library iterate in an order no seam
            # owns (found by the determinism self-test, DESIGN 12.2)
            return None
        y[n // 2] = numpy.nan
    elif kind == "rows-mismatch":
        if y is None:
            return None
        y = y[:-1]
    elif kind == "too-few":
        k = max(1, int(cfg.get("k", 2)) - 1)
        X = X[:k]
        y = None if y is None else y[:k]
        w = None if w is None else w[:k]
    elif kind == "1d-X":
        X = X[:, 0].copy()
    elif kind == "single-class":
        if y is None or data.kind not in ("clf", "clf2"):
            return None
        y[:] = y[0]
    elif kind == "empty":
        X = X[:0]
        y = None if y is None else y[:0]
        w = None if w is None else w[:0]
    elif kind == "bad-weights":
        if not spec.weights or data.kind == "frame":
            return None
        w = numpy.ones(n + 2)
    watch = [a for a in (X, y, w) if a is not None]
    kw = {}
    if w is not None and spec.weights:
        kw["sample_weight"] = w
    if y is None:
        args = (X,)
    else:
        args = (X, y)
    if isinstance(spec, (R.SKMeansL1L2, R.SConstraintKMeans, R.SExtendedFeatures, R.SApproximateNMF)):
        args = (X,)
        if isinstance(spec, (R.SExtendedFeatures, R.SApproximateNMF)):
            kw = {}
    if isinstance(spec, R.SPiecewiseTreeRegressor):
        kw = {}
    return args, kw, watch


class _Run:
    def __init__(self, c, spec, cfg, data, g, os_base):
        self.c = c
        self.spec = spec
        self.cfg = cfg
        self.data = data
        self.g = g
        self.os_base = os_base
        self.seen = set()

    def viol(self, oracle, detail, msg):
        sig = (PROP, oracle, self.spec.name) + tuple(str(d) for d in detail)
        if sig in self.seen:
            return
        self.seen.add(sig)
        self.c.violation(PROP, oracle, sig, msg + " | scenario: " + repr(self.c.scenario))

    def env(self, fire=()):
        c = self.c
        c.sched_cfg = None
        c.entropy = E.Entropy("pinned")
        c.entropy.os_by_task = self.os_base
        # what the failing inner estimator raises: a RuntimeError, a ValueError
        # (what input validation raises) or an interruption that is not an
        # Exception at all (only try/finally restores state then)
        kind = self.c.ch.weighted("f", [("runtime", 3), ("value", 2), ("cancel", 1)], "fault-kind") if fire else "runtime"
        c.fault_plan = P.FaultPlan(fire, kind)
        numpy.random.seed(self.g % (2**32 - 1))

    def check_frame(self, est, fp0, snap0, extra_watch, opname, exempt):
        """(a) parameters unchanged, (b) caller data unchanged.  *fp0* is a
        one-element list: after a reported difference the reference is rebased
        so that one defect is reported once, where it happens."""
        coarse = opname.split("(")[0]
        try:
            fp1 = U.param_fingerprint(est)
        except Exception as e:  # noqa: BLE001
            self.viol("get_params-raised", ("after:" + coarse,), "get_params raised %s after %s" % (U.short_exc(e), opname))
            return
        diff = U.diff_fingerprint(fp0[0], fp1)
        if diff:
            k, a, b = diff[0]
            self.viol(
                "params-changed",
                (k, "after:" + coarse),
                "get_params()[%r] was %r before and is %r after %s" % (k, a, b, opname),
            )
            fp0[0] = fp1
        if not exempt:
            if self.data.snapshot() != snap0:
                self.viol("inputs-modified", ("after:" + coarse,), "the caller's X / y / sample_weight were modified by %s" % opname)
            for arr, h in extra_watch:
                if C.ahash(arr) != h:
                    self.viol("inputs-modified", ("after:" + coarse,), "the caller's (invalid) arrays were modified by %s" % opname)

    def execute(self, history):
        """history: list of ops: ('O',), ('F', site), ('I', kind), ('P',), ('S',).
        Returns True if the final successful fit matched a fresh estimator."""
        c, spec, cfg, data = self.c, self.spec, self.cfg, self.data
        est = spec.build(cfg)
        try:
            fp0 = [U.param_fingerprint(est)]
        except Exception as e:  # noqa: BLE001
            self.viol("get_params-raised", ("fresh",), "get_params raised %s on a fresh estimator" % U.short_exc(e))
            return
        snap0 = data.snapshot()
        exempt = spec.exempt_input_write(cfg)
        pristine = data.X.copy() if exempt and isinstance(data.X, numpy.ndarray) else None

        def restore():
            # configurations documented to write into X (copy_x=False /
            # copy_X=False): every operation starts from the original bytes
            if pristine is not None:
                data.X[...] = pristine

        args, kw = spec.fit_args(data, cfg)
        fitted = False
        failed_kinds = []
        tape = None
        last_obs = None
        failed_predict = False
        for j, op in enumerate(history):
            last = j == len(history) - 1
            kind = op[0]
            restore()
            if kind == "O":
                self.env()
                if last:
                    c.ch.start_tape("s")
                ok, r = U.sut(c, "fit", est.fit, *args, **kw)
                if last:
                    tape = c.ch.stop_tape("s")
                if not ok:
                    # a fit that raises leaves parameters and data alone,
                    # whatever made it raise
                    self.check_frame(est, fp0, snap0, [], "failed-fit(%s)" % type(r).__name__, exempt)
                    if not failed_kinds:
                        c.probe("fit_raised_on_generated_data:" + spec.name)
                        return
                    # does a fresh estimator fit the same data?
                    fresh = spec.build(cfg)
                    restore()
                    self.env()
                    ok2, r2 = U.sut(c, "fit(fresh)", fresh.fit, *args, **kw)
                    if ok2:
                        self.viol(
                            "refit-raises-but-fresh-fits",
                            (type(r).__name__, U.where_raised(r)),
                            "after history %r, fit on valid data raised %s while a fresh estimator fits the same data" % (history, U.short_exc(r)),
                        )
                    else:
                        c.probe("fit_raised_on_generated_data:" + spec.name)
                    return
                fitted = True
                if r is not est:
                    self.viol("fit-returns-self", (), "fit returned %r instead of the estimator" % (type(r).__name__,))
                self.check_frame(est, fp0, snap0, [], "fit", exempt)
            elif kind == "F":
                self.env(fire=[op[1]])
                ok, r = U.sut(c, "fit(fault)", est.fit, *args, **kw)
                fired = bool(c.fault_plan.fired)
                if ok:
                    c.probe("fault_swallowed" if fired else "fault_site_not_reached")
                    if r is not est:
                        self.viol("fit-returns-self", (), "fit returned %r instead of the estimator" % (type(r).__name__,))
                    if fired:
                        return  # a swallowed fault: the model is not comparable
                else:
                    if not isinstance(r, (P.InjectedFault, P.InjectedCancel)) and not _caused_by_injected(r):
                        c.probe("fit_failed_differently")
                    failed_kinds.append("peer-fault")
                self.check_frame(est, fp0, snap0, [], "failed-fit(peer-fault)", exempt)
            elif kind == "B":
                # the op[1]-th call that leaves the library raises (parent
                # class, validation helper, numpy, inner estimator ...)
                self.env()
                with B.ForeignCallFaults(c, fire_at=op[1], kind=op[2]) as bf:
                    ok, r = U.sut(c, "fit(foreign-call-fault)", est.fit, *args, **kw)
                fired = bf.fired is not None
                if ok:
                    c.probe("fault_swallowed" if fired else "fault_site_not_reached")
                    if r is not est:
                        self.viol("fit-returns-self", (), "fit returned %r instead of the estimator" % (type(r).__name__,))
                    if fired:
                        return  # a swallowed fault: the model is not comparable
                else:
                    if not isinstance(r, (P.InjectedFault, P.InjectedCancel)) and not _caused_by_injected(r):
                        c.probe("fit_failed_differently")
                    failed_kinds.append("foreign-call")
                    c.probe("fit_failed_at_a_foreign_call")
                self.check_frame(est, fp0, snap0, [], "failed-fit(foreign-call:%s)" % (bf.fired[2] if fired else "-"), exempt)
            elif kind == "I":
                inv = _invalid_data(op[1], spec, cfg, data)
                if inv is None:
                    continue
                iargs, ikw, watch = inv
                watch = [(a, C.ahash(a)) for a in watch]
                self.env()
                ok, r = U.sut(c, "fit(%s)" % op[1], est.fit, *iargs, **ikw)
                if ok:
                    c.probe("invalid_data_accepted")
                    self.check_frame(est, fp0, snap0, watch, "fit(%s)" % op[1], exempt)
                    fitted = True
                else:
                    c.faults_fired["invalid:" + op[1]] += 1
                    failed_kinds.append(op[1])
                    self.check_frame(est, fp0, snap0, watch, "failed-fit(%s)" % op[1], exempt)
            elif kind == "P":
                if not fitted:
                    continue
                self.env()
                obs = R.observe(c, spec, est, cfg, data.Xp)
                self.check_frame(est, fp0, snap0, [], "predict/transform", False)
                if failed_predict and last_obs is not None:
                    bad = R.same_outputs(spec, last_obs, obs, exact=True)
                    if bad:
                        self.viol(
                            "predict-differs-after-failed-predict",
                            (bad[0],),
                            "after a predict/transform call in which an inner estimator failed, the same call returns other values than before (%r)" % (bad,),
                        )
                last_obs = obs
            elif kind == "Q":
                if not fitted:
                    continue
                self.env(fire=[op[1]])
                R.observe(c, spec, est, cfg, data.Xp)
                if c.fault_plan.fired:
                    failed_predict = True
                self.check_frame(est, fp0, snap0, [], "failed-predict(peer-fault)", False)
            elif kind == "S":
                if not fitted or not hasattr(est, "score") or data.kind == "frame":
                    continue
                self.env()
                if data.y is None:
                    U.sut(c, "score", est.score, data.X)
                else:
                    U.sut(c, "score", est.score, data.X, data.y)
                self.check_frame(est, fp0, snap0, [], "score", False)
        if not history or history[-1][0] != "O":
            return
        # (d) the last successful fit equals a fresh estimator's, under the
        # same global seed, entropy and thread schedule
        self.env()
        got = R.observe(c, spec, est, cfg, data.Xp)
        fresh = spec.build(cfg)
        restore()
        self.env()
        c.ch.play_tape("s", tape or [])
        try:
            ok, r = U.sut(c, "fit(fresh)", fresh.fit, *args, **kw)
        finally:
            c.ch.stop_play("s")
        if not ok:
            c.probe("fit_raised_on_generated_data:" + spec.name)
            return
        self.env()
        want = R.observe(c, spec, fresh, cfg, data.Xp)
        bad = R.same_outputs(spec, got, want, exact=True)
        c.log.ev("result", [(m, C.ahash(v)) for m, v in sorted(got.items())])
        if bad and failed_kinds:
            self.viol(
                "refit-differs-from-fresh",
                ("after:failed-fit",),
                "after history %r the model differs from a fresh estimator fitted on the same data (methods %r)" % (history, bad),
            )
        elif bad:
            self.viol("refit-differs-from-fresh", ("after:success",), "after history %r the model differs from a fresh estimator (methods %r)" % (history, bad))


def _caused_by_injected(e):
    seen = 0
    while e is not None and seen < 10:
        if isinstance(e, (P.InjectedFault, P.InjectedCancel)):
            return True
        e = e.__cause__ or e.__context__
        seen += 1
    return False


def _run_reciprocal(c):
    """The reciprocal target transformers have their own calling convention
    (fit(X, y), transform(X, y) -> (X, y')): a small dedicated scenario."""
    from mlinsights.mlmodel import FunctionReciprocalTransformer, PermutationReciprocalTransformer

    ch = c.ch
    which = ch.choice("w", ["permutation", "function"], "reciprocal")
    n = ch.integer("w", 3, 20, "n")
    seed = ch.subseed("w", "data")
    rs = numpy.random.RandomState(seed)
    X = rs.randn(n, 2)
    seen = set()

    def viol(oracle, detail, msg):
        sig = (PROP, oracle, cls) + tuple(detail)
        if sig not in seen:
            seen.add(sig)
            c.violation(PROP, oracle, sig, msg + " | scenario: " + repr(c.scenario))

    if which == "permutation":
        cls = "PermutationReciprocalTransformer"
        est = PermutationReciprocalTransformer(random_state=ch.choice("w", [None, 0, 4], "rs"))
        y = rs.randint(0, 3, n)
    else:
        cls = "FunctionReciprocalTransformer"
        est = FunctionReciprocalTransformer(ch.choice("w", ["log", "exp", "log1p", "expm1", "log(1+x)", "exp(x)-1"], "fct"))
        y = rs.rand(n) + 0.5
    c.scenario = {"class": cls, "n": n, "data_seed": seed, "template": "reciprocal"}
    c.signature = [cls, "reciprocal"]
    c.entropy = E.Entropy("pinned")
    c.fault_plan = None
    numpy.random.seed(seed)
    fp0 = U.param_fingerprint(est)
    Xc, yc = X.copy(), y.copy()
    history = ch.choice("w", ["fit", "fail,fit", "fit,transform,fit"], "history").split(",")
    c.scenario["history"] = history
    for op in history:
        if op == "fail":
            ok, r = U.sut(c, "fit(no targets)", est.fit, X, None)
            if ok and cls == "PermutationReciprocalTransformer":
                c.probe("invalid_data_accepted")
            name = "failed-fit" if not ok else "fit"
        elif op == "fit":
            ok, r = U.sut(c, "fit", est.fit, X, y)
            if not ok:
                c.probe("fit_raised_on_generated_data:" + cls)
                return
            if r is not est:
                viol("fit-returns-self", (), "fit returned %r instead of the estimator" % (type(r).__name__,))
            name = "fit"
        else:
            ok, r = U.sut(c, "transform", est.transform, X, y)
            name = "predict"
        d = U.diff_fingerprint(fp0, U.param_fingerprint(est))
        if d:
            viol("params-changed", (d[0][0], "after:" + name), "get_params()[%r] changed from %r to %r after %s" % (d[0][0], d[0][1], d[0][2], op))
        if not (numpy.array_equal(Xc, X) and numpy.array_equal(yc, y)):
            viol("inputs-modified", ("after:" + name,), "the caller's X / y were modified by %s" % op)
    c.nontrivial = True


def _same_tokens(doc):
    """A tokenizer for a corpus that is tokenised already."""
    return doc


def _run_text(c):
    """The traceable vectorizers: the corpus is the caller's data too."""
    import copy

    from mlinsights.mlmodel import TraceableCountVectorizer, TraceableTfidfVectorizer

    ch = c.ch
    cls = ch.choice("w", [TraceableCountVectorizer, TraceableTfidfVectorizer], "vectorizer")
    pretok = ch.boolean("w", 0.5, "pre-tokenised")
    ngram = ch.choice("w", [(1, 1), (1, 2), (2, 2)], "ngram_range")
    seed = ch.subseed("w", "data")
    rs = numpy.random.RandomState(seed)
    words = ["this", "is", "a", "Test", "of", "words", "and", "more", "words"]
    docs = [[words[i] for i in rs.randint(0, len(words), rs.randint(2, 7))] for _ in range(ch.integer("w", 2, 6, "n-docs"))]
    if pretok:
        corpus = [list(dd) for dd in docs]  # each document a list of tokens
        est = cls(tokenizer=_same_tokens, lowercase=False, token_pattern=None, ngram_range=ngram)
    else:
        corpus = [" ".join(dd) for dd in docs]
        est = cls(ngram_range=ngram, lowercase=ch.choice("w", [True, False], "lowercase"))
    name = cls.__name__
    c.scenario = {"class": name, "template": "text", "pre_tokenised": pretok, "ngram_range": ngram, "data_seed": seed}
    c.signature = [name, "text", pretok, ngram]
    c.entropy = E.Entropy("pinned")
    c.fault_plan = None
    seen = set()

    def viol(oracle, detail, msg):
        sig = (PROP, oracle, name) + tuple(detail)
        if sig not in seen:
            seen.add(sig)
            c.violation(PROP, oracle, sig, msg + " | scenario: " + repr(c.scenario))

    fp0 = U.param_fingerprint(est)
    before = copy.deepcopy(corpus)
    history = ch.choice("w", ["fit,transform", "fit_transform", "fit,transform,fit", "fit_transform,transform"], "history").split(",")
    c.scenario["history"] = history
    for op in history:
        if op == "fit":
            ok, r = U.sut(c, "fit", est.fit, corpus)
            if ok and r is not est:
                viol("fit-returns-self", (), "fit returned %r instead of the estimator" % (type(r).__name__,))
        elif op == "transform":
            ok, r = U.sut(c, "transform", est.transform, corpus)
        else:
            ok, r = U.sut(c, "fit_transform", est.fit_transform, corpus)
        if not ok:
            c.probe("fit_raised_on_generated_data:" + name)
            return
        dd = U.diff_fingerprint(fp0, U.param_fingerprint(est))
        if dd:
            viol("params-changed", (dd[0][0], "after:" + op), "get_params()[%r] changed from %r to %r after %s" % (dd[0][0], dd[0][1], dd[0][2], op))
        if corpus != before:
            j = [i for i in range(len(before)) if corpus[i] != before[i]][0]
            viol("inputs-modified", ("after:" + op, "pre-tokenised" if pretok else "strings"), "the caller's corpus was modified by %s: document %d was %r and is %r" % (op, j, before[j], corpus[j]))
            return
    c.nontrivial = True
    c.probe("text_vectorizer_scenario")


def run(c, index, tier):
    ch = c.ch
    branch = ch.draw("w", 12, "reciprocal-branch")
    if branch == 11:
        _run_reciprocal(c)
        return
    if branch == 10:
        _run_text(c)
        return
    spec = ch.choice("w", R.SPECS, "spec")
    cfg = spec.draw(ch)
    data = spec.data(ch, "A")
    cfg = spec.finalize(cfg, data)
    template = ch.weighted("w", TEMPLATES, "template")
    failing = ch.weighted("w", [("invalid-data", 4), ("peer-sites", 4), ("foreign-calls", 3)], "failing")
    use_invalid = failing == "invalid-data"
    g = ch.subseed("r", "global-seed")
    os_base = ch.subseed("r", "os-base")
    c.scenario = {"class": spec.name, "config": {k: repr(v) for k, v in cfg.items()}, "data": data.desc, "template": template, "failing": failing}
    c.signature = [spec.name, template, use_invalid, repr(sorted((k, repr(v)) for k, v in cfg.items() if k not in ("pre_seed",)))[:200]]
    r = _Run(c, spec, cfg, data, g, os_base)
    letters = template.split(",")

    if "Q" in letters:
        # dry run: which fault sites does predict/transform reach?
        est = spec.build(cfg)
        r.env()
        args, kw = spec.fit_args(data, cfg)
        ok, res = U.sut(c, "fit(dry)", est.fit, *args, **kw)
        if not ok:
            c.probe("fit_raised_on_generated_data:" + spec.name)
            return
        r.env()
        R.observe(c, spec, est, cfg, data.Xp)
        sites = list(c.fault_plan.seen)
        c.scenario["predict_sites"] = len(sites)
        c.probe("predict_sites_total", len(sites))
        if not sites:
            c.probe("scenario_without_predict_site")
            return
        for site in sites[:24]:
            r.execute([("Q", site) if x == "Q" else (x,) for x in letters])
        c.scenario["executions"] = min(len(sites), 24)
        c.nontrivial = True
        return

    if "F" not in letters:
        r.execute([(x,) for x in letters])
        c.nontrivial = True
        return

    if use_invalid:
        kinds = INVALID
        n_exec = 0
        for kind in kinds:
            if _invalid_data(kind, spec, cfg, data) is None:
                continue
            r.execute([("I", kind) if x == "F" else (x,) for x in letters])
            n_exec += 1
        c.scenario["executions"] = n_exec
        c.nontrivial = n_exec > 0
        return

    if failing == "foreign-calls":
        # dry run: how many calls leave the library during fit?
        est = spec.build(cfg)
        r.env()
        args, kw = spec.fit_args(data, cfg)
        with B.ForeignCallFaults(c) as bf:
            ok, res = U.sut(c, "fit(dry)", est.fit, *args, **kw)
        if not ok:
            c.probe("fit_raised_on_generated_data:" + spec.name)
            return
        ncross = bf.count
        c.scenario["foreign_calls"] = ncross
        c.probe("foreign_calls_total", ncross)
        if not ncross:
            c.probe("scenario_without_foreign_call")
            return
        budget = 16 if tier == "quick" else 48
        if ncross <= budget:
            positions = list(range(ncross))
        else:
            positions = sorted(set(ch.draw("f", ncross, "crossing") for _ in range(budget)))
        nF = letters.count("F")
        for k in positions:
            kind = ch.weighted("f", [("runtime", 2), ("value", 2), ("memory", 1), ("cancel", 2)], "fault-kind")
            r.execute([("B", k, kind) if x == "F" else (x,) for x in letters])
        c.scenario["executions"] = len(positions)
        c.nontrivial = True
        return

    # dry run: which fault sites does fit reach?
    est = spec.build(cfg)
    r.env()
    args, kw = spec.fit_args(data, cfg)
    ok, res = U.sut(c, "fit(dry)", est.fit, *args, **kw)
    sites = list(c.fault_plan.seen)
    if not ok:
        c.probe("fit_raised_on_generated_data:" + spec.name)
        return
    c.scenario["sites"] = len(sites)
    c.probe("sites_total", len(sites))
    if not sites:
        c.probe("scenario_without_fault_site")
        r.execute([("O",) if x == "F" else (x,) for x in letters])
        return
    nF = letters.count("F")
    if nF == 1 or tier == "quick":
        plans = [[s] * nF for s in sites]
    else:
        # pairs of sites in consecutive failing fits (thorough)
        plans = [[a, b] for a in sites for b in sites][:64]
    for plan in plans:
        it = iter(plan)
        r.execute([("F", next(it)) if x == "F" else (x,) for x in letters])
    c.scenario["executions"] = len(plans)
    c.nontrivial = True
