"""C03 -- a fitted model depends only on parameters, the last training set and
seeds: refit == fresh (O1), same global seed => same model whatever the OS
entropy and the hash seed (O2), documented determinism of an integer
random_state (O3).  DESIGN §4 C03.
"""
import numpy

from dsim import ctx as C
from dsim import entropy as E
from dsim import peers as P
from props import common as U
from props import registry as R

PROP = "C03"

# classes whose docstring promises that an integer random_state makes the
# estimator deterministic ("Use an int to make the randomness deterministic")
DOCUMENTED_DETERMINISTIC = {"KMeansL1L2", "TransformedTargetClassifier2"}


def _viol(c, seen, spec, oracle, detail, msg):
    sig = (PROP, oracle, spec.name) + tuple(str(d) for d in detail)
    if sig in seen:
        return
    seen.add(sig)
    c.violation(PROP, oracle, sig, msg + " | scenario: " + repr(c.scenario))


def _env(c, g, entropy_mode="pinned"):
    for d in getattr(c, "_datasets", ()):
        d.restore()
    c.sched_cfg = None
    c.entropy = E.Entropy(entropy_mode)
    c.fault_plan = None
    numpy.random.seed(g % (2**32 - 1))


def _probe_batch(A, B):
    Xp = B.Xp
    if isinstance(Xp, numpy.ndarray) and isinstance(A.X, numpy.ndarray) and A.X.shape[1] == Xp.shape[1]:
        Xp = numpy.vstack([Xp, A.X[: min(4, A.X.shape[0])]])
        if B.kind == "nonneg":
            Xp = numpy.abs(Xp) + 0.01
    return Xp


def _observe(c, spec, est, cfg, Xp):
    out = R.observe(c, spec, est, cfg, Xp)
    out.update(R.observe_attrs(spec, est))
    return out


def _run_text(c):
    """The traceable vectorizers: a vocabulary learned by an earlier fit."""
    from mlinsights.mlmodel import TraceableCountVectorizer, TraceableTfidfVectorizer

    ch = c.ch
    cls = ch.choice("w", [TraceableCountVectorizer, TraceableTfidfVectorizer], "vectorizer")
    ngram = ch.choice("w", [(1, 1), (1, 2)], "ngram_range")
    seed = ch.subseed("w", "data")
    rs = numpy.random.RandomState(seed)
    words = ["alpha", "beta", "gamma", "delta", "one", "two", "three", "four", "five", "six", "seven"]

    def corpus(lo, hi):
        return [" ".join(words[i] for i in rs.randint(lo, hi, rs.randint(2, 7))) for _ in range(rs.randint(2, 6))]

    A, B = corpus(0, 6), corpus(3, len(words))
    probe = A + B
    first = ch.choice("w", ["fit", "fit_transform"], "first-fit")
    second = ch.choice("w", ["fit", "fit_transform"], "second-fit")
    between = ch.choice("w", ["names", "transform", "names+transform", "nothing"], "between")
    name = cls.__name__
    c.scenario = {"class": name, "template": "text", "ngram_range": ngram, "first": first, "between": between, "second": second, "data_seed": seed}
    c.signature = [name, "text", ngram, first, between, second]
    c.entropy = E.Entropy("pinned")
    c.fault_plan = None
    seen = set()

    def observe(v):
        out = {}
        for what, fn in (("feature_names", lambda: list(v.get_feature_names_out())), ("transform", lambda: v.transform(probe).toarray()), ("vocabulary", lambda: sorted((str(k), int(j)) for k, j in v.vocabulary_.items()))):
            try:
                out[what] = fn()
            except Exception as e:  # noqa: BLE001
                out[what] = "raised:" + type(e).__name__
        return out

    x = cls(ngram_range=ngram)
    ok, _ = U.sut(c, first + "(A)", getattr(x, first), A)
    if not ok:
        c.probe("fit_raised_on_generated_data:" + name)
        return
    if "names" in between:
        U.sut(c, "get_feature_names_out", x.get_feature_names_out)
    if "transform" in between:
        U.sut(c, "transform", x.transform, A)
    ok, _ = U.sut(c, second + "(B)", getattr(x, second), B)
    f = cls(ngram_range=ngram)
    ok2, _ = U.sut(c, "fresh.fit(B)", f.fit, B)
    if not (ok and ok2):
        c.probe("fit_raised_on_generated_data:" + name)
        return
    got, want = observe(x), observe(f)
    for what in sorted(want):
        a, b = got[what], want[what]
        same = numpy.array_equal(a, b) if isinstance(b, numpy.ndarray) and isinstance(a, numpy.ndarray) else a == b
        if not same:
            sig = (PROP, "refit-differs-from-fresh", name, what)
            if sig not in seen:
                seen.add(sig)
                c.violation(PROP, "refit-differs-from-fresh", sig, "%s(A); %s; %s(B) differs from fresh.fit(B) in %s: %r vs %r | scenario: %r" % (first, between, second, what, a if not isinstance(a, numpy.ndarray) else a.shape, b if not isinstance(b, numpy.ndarray) else b.shape, c.scenario))
    c.nontrivial = True
    c.probe("text_vectorizer_scenario")


def run(c, index, tier):
    ch = c.ch
    seen = set()
    if ch.draw("w", 14, "text-branch") == 13:
        _run_text(c)
        return
    spec = ch.choice("w", R.SPECS, "spec")
    cfg = spec.draw(ch)
    if "n_jobs" in cfg:
        cfg["n_jobs"] = None  # dependence on the thread schedule is C08's subject
    A = spec.data(ch, "A")
    B = spec.data(ch, "B")
    c._datasets = (A, B)
    predict_between = ch.boolean("w", 0.5, "predict-between")
    g = ch.subseed("r", "global-seed")
    g2 = ch.subseed("r", "other-global-seed")
    Xp = _probe_batch(A, B)
    c.scenario = {"class": spec.name, "config": {k: repr(v) for k, v in cfg.items()}, "A": A.desc, "B": B.desc, "predict_between": predict_between}
    c.signature = [spec.name, repr(sorted((k, repr(v)) for k, v in cfg.items() if k != "pre_seed"))[:200], A.desc.get("labels"), B.desc.get("labels"), A.desc.get("d"), B.desc.get("d")]
    if "str" in (A.desc.get("labels"), B.desc.get("labels")):
        c.probe("labels_str")
        c.recheck = True  # re-executed under another PYTHONHASHSEED by the runner
    c.nontrivial = True

    argsA, kwA = spec.fit_args(A, cfg)
    argsB, kwB = spec.fit_args(B, cfg)

    # ---- before anything else happened in this run: a first instance fitted on B
    # (the reference for state kept outside the instances: class attributes,
    # module-level memos -- such state would reach *both* sides of O1)
    f0 = spec.build(cfg)
    _env(c, g)
    c.ch.start_tape("r")
    ok0, r0 = U.sut(c, "pristine.fit(B)", f0.fit, *argsB, **kwB)
    tape = c.ch.stop_tape("r")
    want0 = None
    if ok0:
        _env(c, g)
        want0 = _observe(c, spec, f0, cfg, Xp)

    # ---- history on one instance: fit(A) [predict] fit(B); in one run out of
    # four the instance starts with another configuration and is reconfigured
    # with set_params between the two fits (what a grid search does to a clone)
    reconfigured = ch.boolean("w", 0.25, "reconfigured-between-fits")
    if reconfigured:
        cfg1 = spec.draw(ch)
        if "n_jobs" in cfg1:
            cfg1["n_jobs"] = None
        x = spec.build(cfg1)
        # ... on other data, or on the very same data (a grid search fits its
        # candidates on one training set: a memo keyed on the data alone, or on
        # an abbreviated description of the parameters, would answer with the
        # previous candidate's model)
        same_data = ch.boolean("w", 0.4, "first-fit-on-the-same-data")
        argsA, kwA = spec.fit_args(B if same_data else A, cfg1)
        c.scenario["first_config"] = {k: repr(v) for k, v in cfg1.items()}
        c.scenario["first_fit_on_the_same_data"] = same_data
        if same_data:
            c.probe("reconfigured_and_refitted_on_the_same_data")
    else:
        x = spec.build(cfg)
    _env(c, g)
    ok, r = U.sut(c, "fit(A)", x.fit, *argsA, **kwA)
    if not ok:
        c.probe("fit_raised_on_generated_data:" + spec.name)
        return
    if want0 is not None:
        # the pristine instance, fitted on B and left alone, is asked again now
        # that another instance has been fitted on A
        _env(c, g)
        again = _observe(c, spec, f0, cfg, Xp)
        bad = R.same_outputs(spec, want0, again, exact=True)
        if bad:
            _viol(
                c,
                seen,
                spec,
                "fitted-instance-changed-by-another-instance",
                (bad[0],),
                "an estimator fitted on B gives other outputs after a second, independent instance was fitted on A (differing: %r): fitted state is shared between instances" % (bad,),
            )
    if reconfigured:
        ok, r = U.sut(c, "set_params(second configuration)", x.set_params, **spec.build(cfg).get_params(deep=False))
        if not ok:
            c.probe("set_params_raised:" + spec.name)
            return
        c.probe("reconfigured_between_fits")
    if predict_between:
        _env(c, g)
        R.observe(c, spec, x, cfg, A.Xp)
    _env(c, g)
    c.ch.play_tape("r", tape)
    try:
        ok, r = U.sut(c, "fit(B)", x.fit, *argsB, **kwB)
    finally:
        c.ch.stop_play("r")
    first_failed = not ok
    if ok:
        _env(c, g)
        got = _observe(c, spec, x, cfg, Xp)

    # ---- O1: fresh estimator, same seed, same entropy record
    f = spec.build(cfg)
    _env(c, g)
    c.ch.play_tape("r", tape)
    try:
        ok, r2 = U.sut(c, "fresh.fit(B)", f.fit, *argsB, **kwB)
    finally:
        c.ch.stop_play("r")
    if not ok:
        c.probe("fit_raised_on_generated_data:" + spec.name)
        if not first_failed:
            _viol(c, seen, spec, "refit-fits-but-fresh-raises", (type(r2).__name__,), "fit(A);fit(B) succeeded but a fresh estimator raised %s on B" % U.short_exc(r2))
        return
    if first_failed:
        _viol(
            c,
            seen,
            spec,
            "refit-raises-but-fresh-fits",
            (type(r).__name__, U.where_raised(r)),
            "fit(B) after fit(A) raised %s while a fresh estimator fits B" % U.short_exc(r),
        )
        return
    _env(c, g)
    want = _observe(c, spec, f, cfg, Xp)
    c.log.ev("result", "fresh", [(m, v[:2] if isinstance(v, tuple) else C.ahash(v)) for m, v in sorted(want.items())])
    bad = R.same_outputs(spec, got, want, exact=True)
    if bad:
        _viol(
            c,
            seen,
            spec,
            "refit-differs-from-fresh",
            (bad[0],),
            "fit(A);fit(B) differs from fresh.fit(B) under the same seed and entropy (differing: %r)" % (bad,),
        )

    if want0 is not None:
        bad = R.same_outputs(spec, want0, want, exact=True)
        if bad:
            _viol(
                c,
                seen,
                spec,
                "fresh-instance-depends-on-other-instances",
                (bad[0],),
                "a fresh estimator fitted on B after another instance went through fit(A);fit(B) differs from a fresh estimator fitted on B before that, under the same seed and entropy (differing: %r): something outside the instances is kept" % (bad,),
            )
        c.probe("pristine_reference_compared")

    # ---- O2: same global seed, other OS entropy => same model
    n_seam_before = sum(c.seam_calls.values())
    f2 = spec.build(cfg)
    _env(c, g)
    ok, r3 = U.sut(c, "fresh2.fit(B)", f2.fit, *argsB, **kwB)
    if not ok:
        # the same data, parameters and global seed a moment ago gave a model
        _viol(
            c,
            seen,
            spec,
            "same-seed-different-model",
            ("second-fit-raised", type(r3).__name__),
            "two fresh fits on the same data with the same numpy global seed: the first one returned, the second one raised %s (what differs is only what the simulator stands in for: OS entropy, uninitialised memory)" % U.short_exc(r3),
        )
    if ok:
        _env(c, g)
        other = _observe(c, spec, f2, cfg, Xp)
        bad = R.same_outputs(spec, want, other, exact=True)
        if bad:
            unseeded = c.probes.get("unseeded_RandomState", 0)
            _viol(
                c,
                seen,
                spec,
                "same-seed-different-model",
                ("os-entropy" if unseeded else "unknown-source",),
                "two fresh fits on the same data with the same numpy global seed differ (differing: %r); unseeded RandomState() requests in this run: %d" % (bad, unseeded),
            )
    # ---- O3: documented determinism of an integer random_state
    det = isinstance(cfg.get("random_state"), int)
    if spec.name == "TransformedTargetClassifier2":
        # the random_state of its PermutationReciprocalTransformer is the seed
        # of the permutation; the inner classifiers used here are deterministic
        det = str(cfg.get("transformer", "")).startswith("object-rs")
    if spec.name in DOCUMENTED_DETERMINISTIC and det:
        c.probe("documented_determinism_checked")
        f3 = spec.build(cfg)
        _env(c, g2)
        ok, r4 = U.sut(c, "fresh3.fit(B)", f3.fit, *argsB, **kwB)
        if ok:
            _env(c, g2)
            o3 = _observe(c, spec, f3, cfg, Xp)
            bad = R.same_outputs(spec, want, o3, exact=True)
            if bad:
                _viol(c, seen, spec, "int-random_state-not-deterministic", (bad[0],), "with an integer random_state (%r) the model depends on the numpy global seed (differing: %r)" % (cfg.get("random_state", cfg.get("transformer")), bad))
