"""C18 -- non_linear_correlations is well defined for every split it can draw.

Its only nondeterministic element is the repeated ``train_test_split`` on the
process-global RNG (no seed argument).  The module-level name is replaced by a
simulator-owned splitter that returns legal half/half splits chosen
adversarially (stream r) or delegates to the real function under a simulator
seed.  The ``r2_score_comparable`` sentence of the property is a pure function
and is NOT covered here.  DESIGN §4 C18.
"""
import numpy
import pandas
from sklearn.dummy import DummyRegressor
from sklearn.linear_model import LinearRegression
from sklearn.model_selection import train_test_split as _real_split
from sklearn.tree import DecisionTreeRegressor

from dsim import ctx as C
from dsim import entropy as E
from dsim import peers as P
from props import common as U

import mlinsights.metrics.correlations as M
from mlinsights.metrics import non_linear_correlations

PROP = "C18"

PLinReg = P.make_peer(LinearRegression)
PTreeReg = P.make_peer(DecisionTreeRegressor)
PDummy = P.make_peer(DummyRegressor)


class StatefulLinReg(PLinReg):
    """A linear model that is only able to learn the identity when it is a
    fresh clone: every further fit on the same instance shifts its
    predictions (warm-start / incremental learners behave like this)."""

    def predict(self, X):
        # a scale, not an offset: the correlation is computed from the variance
        # of the residual, which ignores a constant bias
        return PLinReg.predict(self, X) * (1.0 + 0.25 * (getattr(self, "rec_n_fit_", 1) - 1))


def _split_seam(*arrays, **options):
    c = C.current()
    hook = getattr(c, "c18_split", None) if c is not None else None
    if hook is None:
        return _real_split(*arrays, **options)
    return hook(*arrays, **options)


M.train_test_split = _split_seam


def _viol(c, seen, oracle, detail, msg):
    sig = (PROP, oracle) + tuple(str(d) for d in detail)
    if sig in seen:
        return
    seen.add(sig)
    c.violation(PROP, oracle, sig, msg + " | scenario: " + repr(c.scenario))


def _make_splitter(c, mode):
    ch = c.ch

    def split(arr, test_size=0.5, **kw):
        n = arr.shape[0]
        n_test = int(numpy.ceil(test_size * n))
        n_train = n - n_test
        c.seam_calls["train_test_split"] += 1
        if mode == "pinned":
            res = _real_split(arr, test_size=test_size, **kw)
            c.log.ev("seam", "train_test_split", "real", n, C.ahash(res[0]))
            return res
        style = ch.draw("r", 6, "split-style")
        idx = numpy.arange(n)
        if style == 0:
            order = idx  # first rows train, last rows test
        elif style == 1:
            order = idx[::-1]
        elif style == 2:
            order = numpy.argsort(arr[:, ch.draw("r", arr.shape[1], "split-col")], kind="stable")  # sorted split
            c.probe("sorted_split")
        elif style == 3:
            order = numpy.concatenate([idx[::2], idx[1::2]])  # interleaved
        elif style == 4:
            col = arr[:, ch.draw("r", arr.shape[1], "split-col")]
            order = numpy.argsort(-col, kind="stable")
            c.probe("sorted_split")
        else:
            order = numpy.random.RandomState(ch.subseed("r", "split-seed")).permutation(n)
        train, test = order[:n_train], order[n_train:]
        c.log.ev("seam", "train_test_split", style, n, C.ahash(order))
        return [arr[train], arr[test]]

    return split


def _table(ch, rs, n, d):
    cols = []
    kinds = []
    for j in range(d):
        kind = ch.weighted("w", [("normal", 4), ("constant", 1), ("collinear", 1), ("integer", 1), ("steps", 1)], "col-kind")
        if kind == "collinear" and not cols:
            kind = "normal"
        if kind == "normal":
            col = rs.randn(n)
        elif kind == "constant":
            col = numpy.full(n, 3.5)
        elif kind == "collinear":
            col = cols[0] * -2.0 + 1.0
        elif kind == "integer":
            col = rs.randint(0, 3, n).astype(float)
        else:
            col = numpy.repeat([0.0, 1.0], [n // 2, n - n // 2])
        cols.append(col)
        kinds.append(kind)
    return numpy.ascontiguousarray(numpy.stack(cols, axis=1)), kinds


def run(c, index, tier):
    ch = c.ch
    seen = set()
    n = ch.weighted("w", [(2, 2), (3, 2)] + [(k, 1) for k in range(4, 37)], "n")  # two rows: one row in each half
    d = ch.integer("w", 1, 4, "d")
    seed = ch.subseed("w", "data")
    rs = numpy.random.RandomState(seed)
    X, kinds = _table(ch, rs, n, d)
    int_table = ch.boolean("w", 0.15, "int-table")
    if int_table:
        # count data stored with an integer dtype
        X = numpy.round(X * 4).astype(numpy.int64)
        kinds = ["integer" if k not in ("constant",) else k for k in kinds]
    model_name = ch.choice("w", ["linreg", "tree", "dummy", "stateful-linreg"], "model")
    model = {"linreg": PLinReg, "tree": lambda: PTreeReg(max_depth=3, random_state=0), "dummy": PDummy, "stateful-linreg": StatefulLinReg}[model_name]()
    draws = ch.integer("w", 1, 4, "draws")
    minmax = ch.boolean("w", 0.5, "minmax")
    mode = "adversarial" if ch.draw("r", 3, "mode") != 2 else "pinned"
    fault = ch.boolean("f", 0.25, "fault")
    g = ch.subseed("r", "global-seed")
    names = ["v%d" % j for j in range(d)]
    df = pandas.DataFrame(X.copy(), columns=names)
    object_col = (not int_table) and ch.boolean("w", 0.15, "object-column")
    if object_col:
        # a numeric column stored with dtype object (what a CSV reader or a
        # mixed-type concatenation leaves behind): still one variable
        j = ch.draw("w", d, "object-col-index")
        df[names[j]] = df[names[j]].astype(object)
        c.probe("frame_with_object_dtype_column")
    # "its array" is the frame's own array (same memory layout): a C-ordered
    # copy differs from it by an ulp after scaling, which a tree model can
    # amplify through tie-breaking -- not this property's subject
    X = numpy.array(df.values.astype(numpy.float64) if object_col else df.values, order="K", copy=True)
    c.scenario = {"n": n, "d": d, "int_dtype": int_table, "columns": kinds, "model": model_name, "draws": draws, "minmax": minmax, "split": mode, "fault": fault, "data_seed": seed}
    c.signature = [d, tuple(sorted(set(kinds))), model_name, draws, minmax, mode, fault, n // 6]
    c.entropy = E.Entropy("pinned")
    c.nontrivial = True
    for k in set(kinds):
        c.probe("column_" + k)

    def call(table, fire=()):
        kind = c.ch.weighted("f", [("runtime", 3), ("value", 2), ("cancel", 1)], "fault-kind") if fire else "runtime"
        c.fault_plan = P.FaultPlan(fire, kind)
        numpy.random.seed(g % (2**32 - 1))
        # the same recorded splits for every call that is to be compared
        return U.sut(c, "non_linear_correlations", non_linear_correlations, table, model, draws=draws, minmax=minmax)

    c.c18_split = _make_splitter(c, mode)
    Xc = X.copy()
    dfc = df.copy()
    c.ch.start_tape("r")
    ok, res = call(X)
    tape = c.ch.stop_tape("r")
    n_sites = len(c.fault_plan.seen)
    sites = list(c.fault_plan.seen)
    if not ok:
        _viol(c, seen, "raised", (type(res).__name__, U.where_raised(res), model_name), "non_linear_correlations raised %s on a finite numeric table" % U.short_exc(res))
        return
    if not numpy.array_equal(Xc, X):
        _viol(c, seen, "input-modified", ("array",), "the input array was modified")
    mats = res if minmax else (res,)
    if minmax and (not isinstance(res, tuple) or len(res) != 3):
        _viol(c, seen, "shape", ("minmax-tuple",), "minmax=True did not return three matrices")
        return
    cor = numpy.asarray(mats[0])
    c.log.ev("result", "array", [C.ahash(numpy.asarray(m)) for m in mats])
    for nm, m in zip(("mean", "min", "max"), mats):
        m = numpy.asarray(m)
        if m.shape != (d, d):
            _viol(c, seen, "shape", (nm,), "%s matrix has shape %r for %d variables" % (nm, m.shape, d))
            return
        if numpy.any(numpy.isnan(m)):
            _viol(c, seen, "nan", (nm, model_name), "%s matrix contains NaN: %r" % (nm, m.tolist()))
            return
        if numpy.any(m < -1e-12) or numpy.any(m > 1 + 1e-9):
            _viol(c, seen, "range", (nm, model_name), "%s matrix has entries outside [0, 1]: min %r max %r" % (nm, float(m.min()), float(m.max())))
    if minmax:
        mi, ma = numpy.asarray(mats[1]), numpy.asarray(mats[2])
        if numpy.any(mi > cor + 1e-12) or numpy.any(cor > ma + 1e-12):
            _viol(c, seen, "min-mean-max", (model_name,), "min <= mean <= max does not hold entrywise: min %r mean %r max %r" % (mi.tolist(), cor.tolist(), ma.tolist()))
    if model_name in ("linreg", "stateful-linreg") and n >= 4:  # a training half of one row teaches nothing
        # the identity can only be learnt from a training half that varies:
        # columns with repeated values (integer, two-step) may be constant there
        keep = numpy.array([k in ("normal", "constant") or (k == "collinear" and kinds[0] == "normal") for k in kinds])
        diag = numpy.where(keep, numpy.diag(cor), 1.0)
        c.probe("unit_diagonal_checked", int(keep.sum()))
        if numpy.any(numpy.abs(diag - 1.0) > 1e-9):
            _viol(c, seen, "unit-diagonal", (model_name,), "a linear model can learn the identity but the diagonal is %r (column kinds %r)" % (diag.tolist(), kinds))
    # ---- frame vs array under the same seed and the same splits
    c.ch.play_tape("r", tape)
    try:
        ok, resf = call(df)
    finally:
        c.ch.stop_play("r")
    if not ok:
        _viol(c, seen, "raised", (type(resf).__name__, U.where_raised(resf), "frame"), "non_linear_correlations raised %s on the DataFrame while the array was accepted" % U.short_exc(resf))
    else:
        matsf = resf if minmax else (resf,)
        c.log.ev("result", "frame", [C.ahash(numpy.asarray(m.values if hasattr(m, "values") else m)) for m in matsf])
        for nm, a, f in zip(("mean", "min", "max"), mats, matsf):
            if not hasattr(f, "columns") or list(f.columns) != names or list(f.index) != names:
                _viol(c, seen, "labels", (nm,), "the %s matrix of a DataFrame does not keep the variable labels" % nm)
                break
            if not numpy.allclose(numpy.asarray(a), f.values, rtol=1e-12, atol=1e-12):
                _viol(c, seen, "frame-vs-array", (nm,), "DataFrame and array give different %s matrices under the same seed and splits" % nm)
                break
        if not dfc.equals(df):
            _viol(c, seen, "input-modified", ("frame",), "the input DataFrame was modified")
    # ---- a writeable C-contiguous float64 copy (what X.copy() gives): same
    #      oracles on the input and on the ranges
    Xcc = numpy.ascontiguousarray(X.copy())
    Xcc0 = Xcc.copy()
    c.ch.play_tape("r", tape)
    try:
        ok, resc = call(Xcc)
    finally:
        c.ch.stop_play("r")
    if not ok:
        _viol(c, seen, "raised", (type(resc).__name__, U.where_raised(resc), "c-contiguous"), "non_linear_correlations raised %s on a C-contiguous copy of the table" % U.short_exc(resc))
    else:
        if not numpy.array_equal(Xcc0, Xcc):
            _viol(c, seen, "input-modified", ("c-contiguous-array",), "a writeable C-contiguous float64 input array was modified")
        for nm, m in zip(("mean", "min", "max"), resc if minmax else (resc,)):
            m = numpy.asarray(m)
            if m.shape != (d, d) or numpy.any(numpy.isnan(m)) or numpy.any(m < -1e-12) or numpy.any(m > 1 + 1e-9):
                _viol(c, seen, "range", (nm, model_name, "c-contiguous"), "%s matrix of the C-contiguous copy has a wrong shape, NaN or entries outside [0, 1]" % nm)
    # ---- the caller updates a table in place between two calls (same array
    #      object, new content): the result is that of the current content
    if not int_table and d >= 1 and ch.boolean("w", 0.3, "table-updated-in-place"):
        Xm = numpy.ascontiguousarray(X.copy())
        c.ch.play_tape("r", tape)
        try:
            call(Xm)
        finally:
            c.ch.stop_play("r")
        Xm[...] = Xm[::-1] * 1.5 + 0.25 if n > 1 else Xm + 1.0
        if d >= 2:
            Xm[:, -1] = Xm[:, 0] * 2.0 - 1.0
        c.ch.play_tape("r", tape)
        try:
            ok1, r1 = call(Xm)
        finally:
            c.ch.stop_play("r")
        c.ch.play_tape("r", tape)
        try:
            ok2, r2 = call(Xm.copy())
        finally:
            c.ch.stop_play("r")
        if ok1 != ok2:
            _viol(c, seen, "stale-result", ("raised",), "a table updated in place is %s while a copy of it is %s" % ("accepted" if ok1 else "rejected", "accepted" if ok2 else "rejected"))
        elif ok1:
            for nm, a, b in zip(("mean", "min", "max"), r1 if minmax else (r1,), r2 if minmax else (r2,)):
                if not numpy.allclose(numpy.asarray(a), numpy.asarray(b), rtol=1e-12, atol=1e-12, equal_nan=True):
                    _viol(c, seen, "stale-result", (nm,), "after the caller updated the table in place (same array object), the %s matrix is not that of the current content (a copy of the table gives %r, the object itself %r)" % (nm, numpy.asarray(b).tolist()[:2], numpy.asarray(a).tolist()[:2]))
                    break
        c.probe("table_updated_in_place_between_calls")
    # ---- a frame that is rejected (an infinite value): the call raises, the
    #      caller's frame -- values and labels -- stays as it was; once the
    #      value is repaired the result is labelled as before
    if not int_table and ch.boolean("f", 0.3, "rejected-frame"):
        bad = df.copy()
        i0, j0 = ch.draw("f", n, "bad-row"), ch.draw("f", d, "bad-col")
        orig = bad.iat[i0, j0]
        bad.iat[i0, j0] = numpy.inf
        before = bad.copy()
        c.ch.play_tape("r", tape)
        try:
            okb, rb = call(bad)
        finally:
            c.ch.stop_play("r")
        if not okb:
            c.faults_fired["invalid:inf-in-frame"] += 1
        if list(bad.columns) != list(before.columns) or list(bad.index) != list(before.index) or not bad.equals(before):
            _viol(c, seen, "input-modified", ("frame", "after-rejected-input" if not okb else "after-call"), "a call on a DataFrame holding an infinite value (%s) left the caller's frame changed: columns %r -> %r" % ("rejected" if not okb else "accepted", list(before.columns), list(bad.columns)))
        else:
            bad.iat[i0, j0] = orig
            c.ch.play_tape("r", tape)
            try:
                okr, rr = call(bad)
            finally:
                c.ch.stop_play("r")
            if okr:
                first = rr[0] if minmax else rr
                if not hasattr(first, "columns") or list(first.columns) != names or list(first.index) != names:
                    _viol(c, seen, "labels", ("after-rejected-input",), "after a rejected call, the repaired DataFrame gives a matrix that does not keep the variable labels")
        c.probe("frame_rejected_then_repaired")
    # ---- a failing model: the call raises, the input stays untouched
    if fault and sites:
        site = sites[ch.draw("f", len(sites), "site")]
        c.ch.play_tape("r", tape)
        try:
            ok, r = call(X, fire=[site])
        finally:
            c.ch.stop_play("r")
        if c.fault_plan.fired:
            c.probe("model_failed_inside_call")
        if not numpy.array_equal(Xc, X):
            _viol(c, seen, "input-modified", ("array", "after-failure"), "the input array was modified by a call that failed")
        if ok and c.fault_plan.fired:
            # the call chose to go on after the model failed: what it returns
            # is still bound by the statement
            c.probe("call_returned_although_model_failed")
            rmats = r if minmax else (r,)
            for nm, m in zip(("mean", "min", "max"), rmats):
                m = numpy.asarray(m)
                if m.shape != (d, d) or numpy.any(numpy.isnan(m)) or numpy.any(m < -1e-12) or numpy.any(m > 1 + 1e-9):
                    _viol(c, seen, "range", (nm, model_name, "after-model-failure"), "%s matrix returned by a call in which the model failed has a wrong shape, NaN or entries outside [0, 1]" % nm)
            if minmax and len(rmats) == 3:
                me, mi, ma = (numpy.asarray(x) for x in rmats)
                if numpy.any(mi > me + 1e-12) or numpy.any(me > ma + 1e-12):
                    _viol(c, seen, "min-mean-max", (model_name, "after-model-failure"), "min <= mean <= max does not hold for the result of a call in which the model failed on one pair")
