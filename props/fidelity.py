"""Stub fidelity (self-test, not a deciding step): the same fault-free
scenarios executed under the REAL joblib threading backend.

* piecewise estimators (C08 scenarios): the result digest under real threads
  must equal the digest of the sequential execution the simulator produced;
* IntervalRegressor (C17 scenarios, pinned entropy): every C17 oracle must hold
  under real threads as well.
"""
from props import c08, c17


def run(c, index, tier):
    c.nontrivial = True
    if index % 2 == 0:
        s = c08._generate(c)
        c.scenario = {"kind": "piecewise", "estimator": s.kind, "binner": s.binner_desc, "local": s.peer_name, "n": s.n}
        c.signature = ["fidelity-piecewise", s.kind, s.binner_kind, s.peer_name]
        seen = set()
        ref = c08._execute(c, s, None, seen)
        if ref is None:
            return
        c.real_parallel = True
        try:
            got = c08._execute(c, s, 3, seen)
        finally:
            c.real_parallel = False
        c.probe("piecewise_real_threads")
        if got != ref:
            c.violation("FIDELITY", "real-joblib", ("FIDELITY", "piecewise", s.kind), "real joblib threads give %r, the simulator's sequential execution %r" % (got, ref))
    else:
        c.force_entropy_mode = "pinned"
        c.force_n_jobs = 3
        c.real_parallel = True
        try:
            c17.run(c, index, tier)
        finally:
            c.real_parallel = False
        c.probe("interval_real_threads")
