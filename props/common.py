"""Helpers shared by the property modules (run inside a worker interpreter)."""
import os
import traceback

import numpy
import pandas

from dsim import boot
from dsim import ctx as C
from dsim.peers import InjectedCancel, InjectedFault


def sut(c, name, fn, *args, **kwargs):
    """Calls the system under test.  Returns (ok, value_or_exception).
    Step-cap and harness errors propagate."""
    c.log.ev("op", name)
    try:
        return True, fn(*args, **kwargs)
    except (C.StepCapExceeded, C.HarnessError):
        raise
    except (Exception, InjectedCancel) as e:  # noqa: BLE001
        c.log.ev("op-raised", name, type(e).__name__)
        return False, e


def where_raised(exc):
    """Innermost function of the repository in the traceback of *exc*."""
    root = os.path.join(boot.REPO, "mlinsights")
    best = None
    for fr in traceback.extract_tb(exc.__traceback__):
        if fr.filename.startswith(root):
            best = "%s:%s" % (os.path.basename(fr.filename), fr.name)
    return best or "outside-mlinsights"


def raised_inside_peer(exc):
    """True when the exception was raised by (or below) a peer estimator's own
    method: the inner estimator refused its input."""
    for fr in traceback.extract_tb(exc.__traceback__):
        if fr.filename.endswith(os.path.join("dsim", "peers.py")):
            return True
    return False


def short_exc(exc):
    return "%s: %s" % (type(exc).__name__, str(exc)[:300])


def unique_rows(rs, n, d, style="normal"):
    """n x d float64 matrix with pairwise distinct rows (and distinct values
    in every column), so that a row identifies its index."""
    if style == "grid":
        base = numpy.stack([rs.permutation(n) for _ in range(d)], axis=1).astype(float)
        X = base + rs.rand(n, d) * 0.25
    elif style == "clusters":
        k = max(1, n // 6)
        cen = rs.randn(k, d) * 4
        X = cen[rs.randint(0, k, n)] + rs.randn(n, d) * 0.4
    else:
        X = rs.randn(n, d)
    # enforce distinct values per column
    for j in range(d):
        col = X[:, j]
        u, idx = numpy.unique(col, return_index=True)
        if len(u) < n:
            col += numpy.arange(n) * 1e-6
    return numpy.ascontiguousarray(X)


def row_index_map(X):
    m = {}
    for i in range(X.shape[0]):
        m[X[i].tobytes()] = i
    return m


def same_partition(a, b):
    """True iff labelings a and b induce the same partition."""
    a = list(a)
    b = list(b)
    if len(a) != len(b):
        return False
    ab = {}
    ba = {}
    for x, y in zip(a, b):
        if ab.setdefault(x, y) != y:
            return False
        if ba.setdefault(y, x) != x:
            return False
    return True


def arrays_equal(a, b, rtol=0.0, atol=0.0):
    if a is None or b is None:
        return a is None and b is None
    a = numpy.asarray(a)
    b = numpy.asarray(b)
    if a.shape != b.shape:
        return False
    if a.dtype == object or b.dtype == object or a.dtype.kind in "US" or b.dtype.kind in "US":
        if a.dtype == object or b.dtype == object:
            for x, y in zip(a.ravel().tolist(), b.ravel().tolist()):
                if x is y:
                    continue
                if isinstance(x, float) and isinstance(y, float) and x != x and y != y:
                    continue  # NaN in an object array
                try:
                    if not bool(x == y):
                        return False
                except Exception:  # noqa: BLE001
                    return False
            return True
        return bool(numpy.all(a == b))
    if rtol == 0.0 and atol == 0.0:
        return bool(numpy.array_equal(a, b, equal_nan=True))
    return bool(numpy.allclose(a, b, rtol=rtol, atol=atol, equal_nan=True))


def as_frame(X):
    return pandas.DataFrame(X, columns=["c%d" % i for i in range(X.shape[1])])


def param_fingerprint(est, deep=True):
    """Flat description of get_params: identity for estimator-like values,
    (type, repr) for the rest; recursive through deep=True."""
    out = {}
    params = est.get_params(deep=deep)
    for k in sorted(params):
        v = params[k]
        if hasattr(v, "get_params") and not isinstance(v, type):
            out[k] = ("obj", id(v), type(v).__name__)
        elif isinstance(v, (list, tuple)) and any(hasattr(x, "get_params") for x in v):
            out[k] = ("seq", tuple(id(x) for x in v))
        elif isinstance(v, numpy.ndarray):
            out[k] = ("arr", C.ahash(v))
        elif callable(v):
            out[k] = ("callable", id(v))
        else:
            out[k] = ("val", type(v).__name__, repr(v))
    return out


def diff_fingerprint(a, b):
    keys = sorted(set(a) | set(b))
    return [(k, a.get(k), b.get(k)) for k in keys if a.get(k) != b.get(k)]
