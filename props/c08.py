"""C08 -- piecewise estimators: exact partition by the binner, one local model
per non-empty training bucket trained on exactly that bucket, outputs routed by
bucket (global fallback for unseen buckets), results independent of n_jobs
(thread schedules), probabilities are distributions over classes_.

One run = one generated scenario executed sequentially and under K drawn
schedules (DESIGN §4 C08).
"""
import copy

import numpy
from sklearn.base import clone
from sklearn.dummy import DummyClassifier, DummyRegressor
from sklearn.linear_model import LinearRegression, LogisticRegression
from sklearn.preprocessing import KBinsDiscretizer
from sklearn.tree import DecisionTreeClassifier, DecisionTreeRegressor

from dsim import ctx as C
from dsim import entropy as E
from dsim import peers as P
from dsim.choices import derive_seed
from props import common as U

from mlinsights.mlmodel import PiecewiseClassifier, PiecewiseRegressor

PROP = "C08"


def _labels(ch, rs, X, n):
    ncls = ch.integer("w", 2, 4, "ncls")
    score = X[:, 0] + 0.5 * rs.randn(n)
    qs = numpy.quantile(score, numpy.linspace(0, 1, ncls + 1)[1:-1])
    lab = numpy.searchsorted(qs, score)
    # make one class rare so that buckets lacking a class occur
    if ch.boolean("w", 0.6, "rare"):
        k = ch.integer("w", 1, 2, "rare-count")
        rare = ncls - 1
        idx = numpy.where(lab == rare)[0]
        keep = set(idx[:k].tolist())
        for i in idx:
            if i not in keep:
                lab[i] = rs.randint(0, max(ncls - 1, 1))
        if not keep:
            lab[rs.randint(0, n)] = rare
    # every class present at least once
    for cl in range(ncls):
        if not numpy.any(lab == cl):
            lab[rs.randint(0, n)] = cl
    present = sorted(set(lab.tolist()))
    remap = {v: i for i, v in enumerate(present)}
    lab = numpy.array([remap[v] for v in lab])
    ltype = ch.weighted("w", [("int", 5), ("int-arbitrary", 2), ("str", 2), ("float", 1)], "ltype")
    if ltype == "int":
        y = lab.astype(numpy.int64)
    elif ltype == "int-arbitrary":
        vals = numpy.array([-3, 4, 11, 20])
        y = vals[lab]
    elif ltype == "str":
        vals = numpy.array(["ant", "bee", "cat", "dog"])
        y = vals[lab]
    else:
        vals = numpy.array([1.0, 2.0, 5.0, 7.0])  # float-valued integers (non-integral floats are regression targets for scikit-learn)
        y = vals[lab]
    return y, ltype, len(present)


def _binner(ch, kind):
    b = ch.weighted("w", [("tree", 4), ("kbins", 3), ("bins-str", 1)], "binner")
    if b == "tree":
        depth = ch.integer("w", 1, 4, "depth")
        msl = ch.integer("w", 1, 4, "msl")
        cls = DecisionTreeRegressor if kind == "reg" else DecisionTreeClassifier
        return cls(max_depth=depth, min_samples_leaf=msl, random_state=0), "tree(d=%d,msl=%d)" % (depth, msl), "tree"
    if b == "kbins":
        nb = ch.integer("w", 2, 4, "nbins")
        strat = ch.choice("w", ["quantile", "uniform"], "strategy")
        return KBinsDiscretizer(n_bins=nb, strategy=strat), "kbins(%d,%s)" % (nb, strat), "kbins"
    return "bins", "'bins'", "kbins"


def _peer(ch, kind):
    if kind == "reg":
        name = ch.weighted("w", [("tag", 4), ("linreg", 3), ("dummy", 1), ("tree", 1)], "peer")
        if name == "tag":
            return P.TagRegressor(), name
        if name == "linreg":
            return P.make_peer(LinearRegression)(), name
        if name == "dummy":
            return P.make_peer(DummyRegressor)(), name
        return P.make_peer(DecisionTreeRegressor)(max_depth=2, random_state=0), name
    name = ch.weighted("w", [("tag", 4), ("logreg", 3), ("dummy", 1), ("tree", 1)], "peer")
    if name == "tag":
        return P.TagClassifier(), name
    if name == "logreg":
        return P.make_peer(LogisticRegression)(max_iter=60), name
    if name == "dummy":
        return P.make_peer(DummyClassifier)(strategy="prior"), name
    return P.make_peer(DecisionTreeClassifier)(max_depth=2, random_state=0), name


def _cells(model, X):
    b = model.binner_
    if hasattr(b, "tree_"):
        return [int(v) for v in b.apply(X)]
    bb = copy.deepcopy(b)
    bb.encode = "ordinal"
    codes = bb.transform(X)
    return [tuple(int(v) for v in row) for row in numpy.asarray(codes)]


class _Scenario:
    pass


def _generate(c):
    ch = c.ch
    s = _Scenario()
    s.kind = ch.choice("w", ["clf", "reg"], "kind")
    s.n = ch.integer("w", 6, 48, "n")
    s.d = ch.integer("w", 1, 3, "d")
    # a wide table cut into many cells per feature (16 features x 16 bins: more
    # cells than a 64-bit cell number can count), with rows that share the
    # cells of the leading features and differ only in the last ones
    s.wide = ch.draw("w", 24, "wide") == 23
    if s.wide:
        s.d = 16
        s.n = max(s.n, 12)
    s.data_seed = ch.subseed("w", "data")
    rs = numpy.random.RandomState(s.data_seed)
    s.X = U.unique_rows(rs, s.n, s.d, ch.choice("w", ["normal", "grid", "clusters"], "xstyle"))
    if s.wide:
        base = rs.rand(max(2, s.n // 3), s.d)
        s.X = base[rs.randint(0, base.shape[0], s.n)].copy()
        s.X[:, 12:] = rs.rand(s.n, 4)
        s.X += numpy.arange(s.n)[:, None] * 1e-9  # rows stay pairwise distinct
    s.xdtype = ch.weighted("w", [("float64", 6), ("int64", 1), ("float32", 1)], "xdtype")
    if s.kind == "reg":
        s.y = s.X @ rs.randn(s.d) + numpy.sin(s.X[:, 0]) + 0.1 * rs.randn(s.n)
        s.ltype = "float-target"
        s.ncls = None
    else:
        s.y, s.ltype, s.ncls = _labels(ch, rs, s.X, s.n)
    s.binner, s.binner_desc, s.binner_kind = _binner(ch, s.kind)
    if s.wide:
        s.binner, s.binner_desc, s.binner_kind = KBinsDiscretizer(n_bins=16, strategy="uniform"), "kbins(16,uniform)", "kbins"
        c.probe("wide_table_many_cells")
    s.peer, s.peer_name = _peer(ch, s.kind)
    s.w = None
    if ch.boolean("w", 0.35, "weights"):
        s.w = numpy.round(rs.rand(s.n) * 3 + 0.25, 3)
    s.random_state = None
    if s.kind == "clf" and ch.boolean("w", 0.6, "rs"):
        s.random_state = ch.integer("w", 0, 50, "rs-val")
    s.frame = ch.boolean("w", 0.2, "frame")
    # targets / weights given as pandas Series whose index is not 0..n-1 (rows
    # of a shuffled or filtered frame): positions count, not labels
    s.series = ch.boolean("w", 0.2, "series")
    s.series_index = (rs.permutation(s.n) * 3 + 7) if s.series else None
    # query batch: some training rows + new rows from a wider range
    m_old = ch.integer("w", 1, min(s.n, 10), "m_old")
    m_new = ch.integer("w", 0, 12, "m_new")
    old = rs.permutation(s.n)[:m_old]
    new = rs.randn(m_new, s.d) * 2.0 + rs.randn(1, s.d)
    if s.X.shape[0] and ch.boolean("w", 0.5, "grid-new"):
        # recombine coordinates of training rows: cells unseen at training
        new = numpy.stack([s.X[rs.randint(0, s.n, m_new), j] for j in range(s.d)], axis=1) if m_new else new
    s.Xq = numpy.ascontiguousarray(numpy.vstack([s.X[old], new.reshape(m_new, s.d)]))
    if s.xdtype == "int64":
        # count-like features (rows stay pairwise distinct)
        s.X = numpy.round(s.X * 8).astype(numpy.int64) * (s.n + 1) + numpy.arange(s.n)[:, None]
        s.Xq = numpy.vstack([s.X[old], numpy.round(new.reshape(m_new, s.d) * 8).astype(numpy.int64) * (s.n + 1)])
    elif s.xdtype == "float32":
        s.X = s.X.astype(numpy.float32)
        s.Xq = s.Xq.astype(numpy.float32)
    # history: the same estimator object was fitted (and queried) before on
    # another training set; everything below is about the *last* fit
    s.prefit = ch.boolean("w", 0.3, "fitted-before")
    if s.prefit:
        rs2 = numpy.random.RandomState(ch.subseed("w", "data-before"))
        n0 = ch.integer("w", 6, 40, "n-before")
        X0 = U.unique_rows(rs2, n0, s.d, "normal") * 1.7 + 0.3
        if s.kind == "reg":
            y0 = X0 @ rs2.randn(s.d) + 0.1 * rs2.randn(n0)
        else:
            lab = numpy.unique(s.y)
            y0 = lab[numpy.arange(n0) % len(lab)]
            y0 = y0[rs2.permutation(n0)]
        if s.xdtype == "int64":
            X0 = numpy.round(X0 * 8).astype(numpy.int64) * (n0 + 1) + numpy.arange(n0)[:, None]
        elif s.xdtype == "float32":
            X0 = X0.astype(numpy.float32)
        s.X0, s.y0 = X0, y0
        # ... and a later fit on that set may have died inside one bucket
        s.prefit_dies = ch.boolean("f", 0.5, "fit-before-dies")
        s.prefit_site = ch.draw("f", 64, "site-position")
        s.prefit_kind = ch.weighted("f", [("runtime", 3), ("value", 2), ("cancel", 1)], "fault-kind")
    # a second piecewise estimator built around the *same* binner and local
    # estimator objects is fitted on other data afterwards
    s.shared = ch.boolean("w", 0.2, "inner-objects-shared-with-a-second-estimator")
    if s.shared:
        rs3 = numpy.random.RandomState(ch.subseed("w", "data-second"))
        n1 = ch.integer("w", 8, 30, "n-second")
        X1 = U.unique_rows(rs3, n1, s.d, "normal") * 2.1 - 0.7
        if s.kind == "reg":
            y1 = X1 @ rs3.randn(s.d) * 3 + 5 + 0.1 * rs3.randn(n1)
        else:
            lab = numpy.unique(s.y)
            y1 = lab[(numpy.arange(n1) + 1) % len(lab)]
        if s.xdtype == "int64":
            X1 = numpy.round(X1 * 8).astype(numpy.int64) * (n1 + 1) + numpy.arange(n1)[:, None]
        elif s.xdtype == "float32":
            X1 = X1.astype(numpy.float32)
        s.X1, s.y1 = X1, y1
    s.g = ch.subseed("r", "global-seed")
    s.os_base = ch.subseed("r", "os-entropy-base")
    return s


def _build(s, n_jobs):
    if s.kind == "reg":
        return PiecewiseRegressor(binner=s.binner if s.binner == "bins" else clone(s.binner), estimator=clone(s.peer), n_jobs=n_jobs)
    return PiecewiseClassifier(
        binner=s.binner if s.binner == "bins" else clone(s.binner),
        estimator=clone(s.peer),
        n_jobs=n_jobs,
        random_state=s.random_state,
    )


def _viol(c, s, oracle, detail, msg, seen):
    sig = (PROP, oracle, "PiecewiseClassifier" if s.kind == "clf" else "PiecewiseRegressor") + tuple(detail)
    if sig in seen:
        return
    seen.add(sig)
    c.violation(PROP, oracle, sig, msg + " | scenario: " + repr(c.scenario))


def _execute(c, s, n_jobs, seen):
    """Fits and queries one model; evaluates the per-execution oracles.
    Returns the tuple of result hashes (None if the execution raised)."""
    c.sched_cfg = None
    c.entropy = E.Entropy("pinned")
    c.entropy.os_by_task = s.os_base
    numpy.random.seed(s.g % (2**32 - 1))
    model = _build(s, n_jobs)
    Xin = U.as_frame(s.X) if s.frame else s.X
    Xcopy, ycopy = s.X.copy(), s.y.copy()
    if s.prefit:
        c.fault_plan = P.FaultPlan(())
        ok0, r0 = U.sut(c, "fit(before)", model.fit, U.as_frame(s.X0) if s.frame else s.X0, s.y0)
        if ok0:
            for meth0 in ("predict", "transform_bins"):
                U.sut(c, meth0 + "(before)", getattr(model, meth0), s.X0[: max(1, len(s.X0) // 2)])
            c.probe("fitted_and_queried_before")
            sites = sorted(set(s_ for s_ in c.fault_plan.seen if s_[2] == "fit"))
            if s.prefit_dies and sites:
                c.fault_plan = P.FaultPlan([sites[s.prefit_site % len(sites)]], s.prefit_kind)
                c.sched_cfg = None
                U.sut(c, "fit(before, dies)", model.fit, U.as_frame(s.X0) if s.frame else s.X0, s.y0)
                if c.fault_plan.fired:
                    c.probe("earlier_fit_died_inside_a_bucket")
        c.fault_plan = None
        c.sched_cfg = None
        c.entropy = E.Entropy("pinned")
        c.entropy.os_by_task = s.os_base
        numpy.random.seed(s.g % (2**32 - 1))
    yin, win = s.y, s.w
    if s.series:
        import pandas

        yin = pandas.Series(s.y, index=s.series_index)
        win = None if s.w is None else pandas.Series(s.w, index=s.series_index)
        if s.frame:
            Xin = Xin.set_axis(s.series_index, axis=0)
    if s.w is None:
        ok, r = U.sut(c, "fit", model.fit, Xin, yin)
    else:
        ok, r = U.sut(c, "fit", model.fit, Xin, yin, sample_weight=win)
    if not ok:
        _viol(c, s, "raised", ("fit", type(r).__name__, U.where_raised(r), "labels=" + s.ltype), "fit raised %s on valid data (n_jobs=%r)" % (U.short_exc(r), n_jobs), seen)
        return None
    if r is not model:
        _viol(c, s, "fit-returns-self", (), "fit did not return the estimator", seen)
    if not (numpy.array_equal(Xcopy, s.X) and U.arrays_equal(ycopy, s.y)):
        _viol(c, s, "inputs-modified", (), "fit modified the caller's data", seen)
    X, y, w = s.X, s.y, s.w
    out = []
    if s.shared:
        second = type(model)(**model.get_params(deep=False))  # same binner / estimator objects
        c.sched_cfg = None
        ok1, _ = U.sut(c, "second.fit (shares the inner objects)", second.fit, s.X1, s.y1)
        c.sched_cfg = None
        c.entropy = E.Entropy("pinned")
        c.entropy.os_by_task = s.os_base
        numpy.random.seed(s.g % (2**32 - 1))
        if ok1:
            c.probe("second_estimator_fitted_around_the_same_inner_objects")
    # ---- (a) partition of the training rows
    ok, assoc = U.sut(c, "transform_bins", model.transform_bins, X)
    if not ok:
        _viol(c, s, "raised", ("transform_bins", type(assoc).__name__, U.where_raised(assoc)), "transform_bins raised %s" % U.short_exc(assoc), seen)
        return None
    assoc = numpy.asarray(assoc)
    cells = _cells(model, X)
    ids = [int(v) for v in assoc]
    nest = model.n_estimators_
    if any(v != int(v) for v in assoc.tolist()) or min(ids) < 0 or max(ids) >= nest:
        _viol(c, s, "partition", ("train-id-range",), "training rows got bucket ids %r outside [0,%d)" % (sorted(set(ids)), nest), seen)
        return None
    if not U.same_partition(ids, cells):
        _viol(c, s, "partition", ("train-vs-binner", s.binner_kind), "transform_bins disagrees with the binner's own cells on training rows: ids=%r cells=%r" % (ids, cells), seen)
        return None
    # ---- (b) one model per non-empty training bucket
    ncell = len(set(cells))
    if nest != ncell or sorted(set(ids)) != list(range(nest)):
        _viol(c, s, "n-estimators", (s.binner_kind,), "n_estimators_=%d but %d non-empty training buckets (ids %r)" % (nest, ncell, sorted(set(ids))), seen)
        return None
    out.append(C.ahash(assoc))
    # ---- (c) each local model saw exactly its bucket
    rowidx = U.row_index_map(X)
    allcl = set(y.tolist()) if s.kind == "clf" else None
    lacked = 0
    for i, est in enumerate(model.estimators_):
        if not hasattr(est, "rec_X_"):
            _viol(c, s, "local-model-not-fitted", (), "estimators_[%d] carries no training record" % i, seen)
            return None
        B = [k for k in range(len(ids)) if ids[k] == i]
        try:
            R = [rowidx[est.rec_X_[k].tobytes()] for k in range(est.rec_X_.shape[0])]
        except KeyError:
            _viol(c, s, "bucket-record", ("foreign-row",), "estimators_[%d] was trained on a row that is not a training row" % i, seen)
            return None
        if s.kind == "reg":
            if R != B:
                _viol(c, s, "bucket-record", ("rows",), "estimators_[%d] trained on rows %r, bucket holds %r" % (i, R, B), seen)
                return None
        else:
            if R != sorted(R) or len(set(R)) != len(R) or not set(B) <= set(R):
                _viol(c, s, "bucket-record", ("rows",), "estimators_[%d] trained on rows %r, bucket holds %r" % (i, R, B), seen)
                return None
            extra = [k for k in R if k not in set(B)]
            missing = allcl - set(y[B].tolist())
            if missing:
                lacked += 1
            got = sorted(y[extra].tolist())
            if got != sorted(missing):
                _viol(c, s, "bucket-record", ("borrowed",), "estimators_[%d]: bucket lacks classes %r but borrowed rows %r carry labels %r" % (i, sorted(missing), extra, got), seen)
                return None
        if not U.arrays_equal(est.rec_y_, y[R]):
            _viol(c, s, "bucket-record", ("targets",), "estimators_[%d] trained on targets that are not those of its rows" % i, seen)
            return None
        if (w is None) != (est.rec_w_ is None) or (w is not None and not U.arrays_equal(est.rec_w_, w[R])):
            _viol(c, s, "bucket-record", ("weights",), "estimators_[%d] trained with weights that are not those of its rows (%r)" % (i, None if est.rec_w_ is None else est.rec_w_.tolist()), seen)
            return None
        out.append(C.ahash([est.rec_X_, est.rec_y_, est.rec_w_]))
    if lacked:
        c.probe("bucket_lacked_a_class", lacked)
    me = model.mean_estimator_
    if not (U.arrays_equal(me.rec_X_, X) and U.arrays_equal(me.rec_y_, y) and U.arrays_equal(me.rec_w_, w)):
        _viol(c, s, "bucket-record", ("fallback-model",), "the fallback model was not trained on the whole training set", seen)
        return None
    # ---- (d) routing of a query batch
    Xq = s.Xq
    tree = getattr(model.binner_, "tree_", None)
    if tree is not None and Xq.dtype == numpy.float64 and X.dtype == numpy.float64:
        # rows that sit on a split threshold of the fitted tree, and one
        # float64 step on either side of it (scikit-learn's trees compare
        # float32 values: the binner's own answer is the reference)
        near = []
        for node in range(tree.node_count):
            if tree.children_left[node] != tree.children_right[node] and len(near) < 12:
                thr = float(tree.threshold[node])
                for v in (numpy.nextafter(thr, numpy.inf), thr, numpy.nextafter(thr, -numpy.inf)):
                    row = X[node % X.shape[0]].copy()
                    row[int(tree.feature[node])] = v
                    near.append(row)
        if near:
            Xq = numpy.ascontiguousarray(numpy.vstack([Xq, numpy.array(near)]))
            c.probe("query_rows_on_split_thresholds", len(near))
    ok, aq = U.sut(c, "transform_bins(q)", model.transform_bins, Xq)
    if not ok:
        _viol(c, s, "raised", ("transform_bins", type(aq).__name__, U.where_raised(aq)), "transform_bins raised %s" % U.short_exc(aq), seen)
        return None
    cell2id = {}
    for k, ce in enumerate(cells):
        cell2id[ce] = ids[k]
    qcells = _cells(model, Xq)
    exp = [cell2id.get(ce, -1) for ce in qcells]
    got = [int(v) for v in numpy.asarray(aq)]
    if got != exp:
        _viol(c, s, "routing", ("bucket-id", s.binner_kind), "transform_bins(query)=%r expected %r" % (got, exp), seen)
        return None
    n_unseen = sum(1 for v in exp if v == -1)
    if n_unseen:
        c.probe("unseen_bucket_at_predict", n_unseen)
    out.append(C.ahash(numpy.asarray(aq)))
    methods = ["predict"]
    if s.kind == "clf":
        methods.append("predict_proba")
        if hasattr(model.estimators_[0], "decision_function"):
            methods.append("decision_function")
    Xq_in = U.as_frame(Xq) if s.frame else Xq
    exp_arr = numpy.asarray(exp)
    for meth in methods:
        ok, res = U.sut(c, meth, getattr(model, meth), Xq_in)
        if not ok:
            _viol(c, s, "raised", (meth, type(res).__name__, U.where_raised(res), "labels=" + s.ltype), "%s raised %s on a valid batch" % (meth, U.short_exc(res)), seen)
            out.append("raised")
            continue
        res = numpy.asarray(res)
        if res.shape[0] != Xq.shape[0]:
            _viol(c, s, "routing", ("shape", meth), "%s returned %d rows for %d" % (meth, res.shape[0], Xq.shape[0]), seen)
            continue
        bad = None
        for i in sorted(set(exp)):
            rows = numpy.where(exp_arr == i)[0]
            ref = model.mean_estimator_ if i == -1 else model.estimators_[i]
            want = numpy.asarray(getattr(ref, meth)(Xq[rows]))
            have = res[rows]
            if want.shape != have.shape:
                want = want.reshape(have.shape) if want.size == have.size else want
            if meth == "predict" and s.kind == "clf":
                eq = want.shape == have.shape and bool(numpy.all(have == want))
            else:
                eq = U.arrays_equal(have, want)
            if not eq:
                bad = (i, rows.tolist(), have.tolist()[:4], want.tolist()[:4])
                break
        if bad is not None:
            _viol(c, s, "routing", ("output", meth, "fallback" if bad[0] == -1 else "bucket", "labels=" + s.ltype if meth == "predict" else ""), "%s: rows %r of bucket %d got %r, their model gives %r" % (meth, bad[1], bad[0], bad[2], bad[3]), seen)
        # rows of unseen cells alone in their batch: still the fallback model
        if n_unseen and bad is None:
            urows = numpy.where(exp_arr == -1)[0]
            for sub in (urows[:1], urows):
                ok2, r2 = U.sut(c, meth + "(unseen-only)", getattr(model, meth), Xq[sub])
                if not ok2:
                    _viol(c, s, "raised", (meth, type(r2).__name__, U.where_raised(r2), "unseen-only-batch"), "%s raised %s on a batch made of rows of unseen cells only" % (meth, U.short_exc(r2)), seen)
                    break
                want2 = numpy.asarray(getattr(model.mean_estimator_, meth)(Xq[sub]))
                r2 = numpy.asarray(r2)
                same2 = r2.shape == want2.shape and (bool(numpy.all(r2 == want2)) if (meth == "predict" and s.kind == "clf") else U.arrays_equal(r2, want2))
                if not same2:
                    _viol(c, s, "routing", ("output", meth, "fallback", "unseen-only-batch"), "%s on a batch made only of rows of unseen cells (%d rows) does not return the fallback model's output" % (meth, len(sub)), seen)
                    break
            c.probe("unseen_only_batch_checked")
        # the caller reuses one array object for successive batches
        if bad is None and Xq.shape[0] >= 2:
            buf = Xq.copy()
            ok3, _first = U.sut(c, meth + "(buffer)", getattr(model, meth), buf)
            perm = numpy.roll(numpy.arange(Xq.shape[0]), 1)
            buf[...] = Xq[perm]
            ok4, second = U.sut(c, meth + "(buffer refilled)", getattr(model, meth), buf)
            if ok3 and ok4:
                second = numpy.asarray(second)
                # the rows reach their bucket models in another order: BLAS may
                # round differently (same latitude as batch vs single row)
                rt, at = (1e-4, 1e-5) if Xq.dtype == numpy.float32 else (1e-9, 1e-12)
                same3 = second.shape == res.shape and (bool(numpy.all(second == res[perm])) if (meth == "predict" and s.kind == "clf") else U.arrays_equal(second, res[perm], rt, at))
                if not same3:
                    _viol(c, s, "routing", ("output", meth, "buffer-reuse"), "%s on an array object that was predicted before and refilled in place does not return the outputs of its current rows" % meth, seen)
            c.probe("buffer_reused")
        # ---- (f) distributions / labels
        if meth == "predict_proba":
            k = len(model.classes_)
            if res.ndim != 2 or res.shape[1] != k or numpy.any(res < -1e-12) or not numpy.allclose(res.sum(axis=1), 1.0, atol=1e-9):
                _viol(c, s, "proba", (), "predict_proba is not a distribution over classes_ (%d classes): %r" % (k, res[:3].tolist()), seen)
        if meth == "predict" and s.kind == "clf":
            cl = set(numpy.asarray(model.classes_).tolist())
            if not set(res.tolist()) <= cl:
                _viol(c, s, "labels", ("labels=" + s.ltype,), "predicted labels %r not in classes_ %r" % (sorted(set(res.tolist()))[:5], sorted(cl)), seen)
        out.append(C.ahash(res))
    return tuple(out)


def run(c, index, tier):
    K = 8 if tier == "quick" else 24
    s = _generate(c)
    c.scenario = {
        "estimator": "PiecewiseClassifier" if s.kind == "clf" else "PiecewiseRegressor",
        "binner": s.binner_desc,
        "local": s.peer_name,
        "n": s.n,
        "d": s.d,
        "labels": s.ltype,
        "classes": s.ncls,
        "weights": s.w is not None,
        "random_state": s.random_state,
        "X_as_frame": s.frame,
        "X_dtype": s.xdtype,
        "query_rows": int(s.Xq.shape[0]),
        "data_seed": s.data_seed,
        "fitted_before": s.prefit,
        "y_and_weights_as_series": s.series,
        "inner_objects_shared": s.shared,
        "schedules": [],
    }
    c.signature = [c.scenario["estimator"], s.binner_kind, s.peer_name, s.ltype, s.w is not None, s.random_state is None, s.n // 8, s.d]
    if s.ltype == "str":
        c.probe("labels_str")
    if s.w is not None:
        c.probe("weights_given")
    seen = set()
    ref = _execute(c, s, None, seen)
    c.log.ev("result", "seq", ref)
    if ref is None:
        return
    for k in range(K):
        n_jobs = c.ch.choice("s", [2, 3, -1, 2, 4], "n_jobs")
        before = (c.log.n_switch, c.probes.get("preempt_inside_task", 0))
        got = _execute(c, s, n_jobs, seen)
        cfg = c.sched_cfg.describe() if c.sched_cfg is not None else None
        if len(c.scenario["schedules"]) < 4:
            c.scenario["schedules"].append({"n_jobs": n_jobs, "cfg": cfg, "switches": c.log.n_switch - before[0]})
        c.log.ev("result", k, got)
        if got is not None and got != ref:
            which = [j for j, (a, b) in enumerate(zip(ref, got)) if a != b]
            _viol(
                c,
                s,
                "schedule-independence",
                ("random_state=" + ("None" if s.random_state is None else "int"),),
                "results with n_jobs=%r under schedule %r differ from n_jobs=None (differing parts %r; 0=training ids, then per-bucket records, query ids, outputs)" % (n_jobs, cfg, which),
                seen,
            )
    c.nontrivial = bool(c.probes.get("max_tasks_in_flight_2") or c.probes.get("max_tasks_in_flight_3") or c.seam_calls)
