"""C01 -- parameter protocol: get_params / set_params / clone round trip for
every exported estimator, over histories of protocol calls on two or three live
instances (aliasing of nested objects between instances included).

No fault, schedule or entropy dimension exists for this property; the
simulator contributes the generated histories, the reference model (a flat
dict per instance) and replay/minimisation.  DESIGN §4 C01.
"""
import numpy
from sklearn.base import BaseEstimator, clone
from sklearn.cluster import KMeans
from sklearn.decomposition import PCA
from sklearn.linear_model import LinearRegression, LogisticRegression, Ridge
from sklearn.preprocessing import KBinsDiscretizer, StandardScaler
from sklearn.tree import DecisionTreeClassifier, DecisionTreeRegressor

from dsim import ctx as C
from dsim import entropy as E
from props import common as U
from props import registry as R

from mlinsights.mlmodel import (
    ApproximateNMFPredictor,
    CategoriesToIntegers,
    ClassifierAfterKMeans,
    ConstraintKMeans,
    DecisionTreeLogisticRegression,
    ExtendedFeatures,
    FunctionReciprocalTransformer,
    IntervalRegressor,
    KMeansL1L2,
    PermutationReciprocalTransformer,
    PiecewiseClassifier,
    PiecewiseRegressor,
    PiecewiseTreeRegressor,
    PredictableTSNE,
    QuantileLinearRegression,
    QuantileMLPRegressor,
    TraceableCountVectorizer,
    TraceableTfidfVectorizer,
    TransferTransformer,
    TransformedTargetClassifier2,
    TransformedTargetRegressor2,
)
from mlinsights.sklapi import (
    SkBaseClassifier,
    SkBaseLearner,
    SkBaseRegressor,
    SkBaseTransformLearner,
    SkBaseTransformStacking,
)
from mlinsights.sklapi.sklearn_base import SkBase
from mlinsights.sklapi.sklearn_base_transform import SkBaseTransform
from mlinsights.timeseries import ARTimeSeriesRegressor

PROP = "C01"


def _clf(ch):
    k = ch.draw("w", 4, "clf")
    if k == 0:
        return LogisticRegression(C=ch.choice("w", [1.0, 0.5, 2.0], "C"), max_iter=60)
    if k == 1:
        return DecisionTreeClassifier(max_depth=ch.integer("w", 1, 3, "depth"), random_state=0)
    if k == 2:
        return R.PLogReg(max_iter=60, C=ch.choice("w", [1.0, 0.25], "C"))
    return R.PTreeClf(max_depth=2, random_state=0)


def _reg(ch):
    k = ch.draw("w", 4, "reg")
    if k == 0:
        return LinearRegression(fit_intercept=ch.choice("w", [True, False], "fi"))
    if k == 1:
        return DecisionTreeRegressor(max_depth=ch.integer("w", 1, 3, "depth"), random_state=0)
    if k == 2:
        return Ridge(alpha=ch.choice("w", [1.0, 0.1], "alpha"))
    return R.PLinReg()


def _transfer(ch):
    if ch.boolean("w", 0.5, "wrap-classifier"):
        est, method = _clf(ch), ch.choice("w", [None, "predict", "predict_proba"], "m")
    else:
        est, method = _reg(ch), ch.choice("w", [None, "predict"], "m")
    return TransferTransformer(est, method=method, copy_estimator=ch.choice("w", [True, False], "ce"), trainable=ch.choice("w", [False, True], "tr"))


def _sk_kwargs(ch):
    """Free keyword parameters of the SkBase family.  The key set is part of
    the class schema: it is drawn once per run and shared by every instance of
    the run (set_params cannot remove a key), the values differ."""
    keys = ["alpha", "beta", "gamma", "k"]
    n = getattr(ch, "_c01_nkw", None)
    if n is None:
        n = ch.integer("w", 0, 4, "nkw")
        ch._c01_nkw = n
    out = {}
    for i in range(n):
        kind = ch.weighted("w", [("int", 5), ("list", 1), ("dict", 1), ("tuple", 1)], "kw-kind")
        v = ch.integer("w", 0, 9, "kw")
        # any value is a legitimate free parameter, containers included (a list
        # of column names, a dict of options): they are stored as given
        out[keys[i]] = {"int": v, "list": [v, v + 1], "dict": {"a": v}, "tuple": (v, "x")}[kind]
    return out


def _stacking(ch):
    n = ch.weighted("w", [(1, 2), (2, 3), (3, 2), (11, 2), (12, 1), (13, 1)], "n-members")
    members = []
    for i in range(n):
        k = ch.draw("w", 4, "member")
        if k == 0:
            members.append(LogisticRegression(C=1.0 + i, max_iter=60))
        elif k == 1:
            members.append(DecisionTreeClassifier(max_depth=1 + i % 3, random_state=0))
        elif k == 2:
            members.append(SkBaseTransformLearner(LogisticRegression(C=0.5 + i, max_iter=60), "predict_proba"))
        else:
            members.append(StandardScaler(with_mean=bool(i % 2)))
    return SkBaseTransformStacking(members, ch.choice("w", ["predict_proba", "predict"], "method"), **_sk_kwargs(ch))


FACTORIES = {
    "SkBase": lambda ch: SkBase(**_sk_kwargs(ch)),
    "SkBaseLearner": lambda ch: SkBaseLearner(**_sk_kwargs(ch)),
    "SkBaseClassifier": lambda ch: SkBaseClassifier(**_sk_kwargs(ch)),
    "SkBaseRegressor": lambda ch: SkBaseRegressor(**_sk_kwargs(ch)),
    "SkBaseTransform": lambda ch: SkBaseTransform(**_sk_kwargs(ch)),
    "SkBaseTransformLearner": lambda ch: SkBaseTransformLearner(
        _clf(ch), ch.choice("w", [None, "predict_proba", "predict", U.as_frame], "method"), **_sk_kwargs(ch)
    ),
    "SkBaseTransformStacking": _stacking,
    "ClassifierAfterKMeans": lambda ch: ClassifierAfterKMeans(
        estimator=ch.choice("w", [None, "x"], "est") and _clf(ch),
        clus=ch.choice("w", [None, "x"], "clus") and KMeans(n_clusters=ch.integer("w", 1, 3, "k"), n_init=2, random_state=0),
        **({"c_n_clusters": 3} if ch.boolean("w", 0.2, "kw") else {}),
    ),
    "ApproximateNMFPredictor": lambda ch: ApproximateNMFPredictor(
        force_positive=ch.choice("w", [False, True], "fp"), n_components=ch.choice("w", [1, 2, 3, None], "nc"), **({"max_iter": 300} if ch.boolean("w", 0.5, "kw") else {})
    ),
    "PiecewiseRegressor": lambda ch: PiecewiseRegressor(
        binner=ch.choice("w", [None, "bins", "tree"], "binner") if ch.boolean("w", 0.7, "b") else DecisionTreeRegressor(max_depth=2), estimator=ch.choice("w", [None, "x"], "e") and _reg(ch), n_jobs=ch.choice("w", [None, 2], "nj")
    ),
    "PiecewiseClassifier": lambda ch: PiecewiseClassifier(
        binner=ch.choice("w", [None, "bins", "tree"], "binner"), estimator=ch.choice("w", [None, "x"], "e") and _clf(ch), random_state=ch.choice("w", [None, 3], "rs")
    ),
    "KMeansL1L2": lambda ch: KMeansL1L2(n_clusters=ch.integer("w", 1, 4, "k"), norm=ch.choice("w", ["L1", "L2"], "norm"), random_state=ch.choice("w", [None, 0], "rs")),
    "ConstraintKMeans": lambda ch: ConstraintKMeans(
        n_clusters=ch.integer("w", 1, 4, "k"), strategy=ch.choice("w", ["gain", "distance", "weights"], "st"), balanced_predictions=ch.choice("w", [False, True], "bp"), kmeans0=ch.choice("w", [True, False], "k0")
    ),
    "QuantileLinearRegression": lambda ch: QuantileLinearRegression(quantile=ch.choice("w", [0.5, 0.1], "q"), max_iter=ch.choice("w", [10, 4], "mi"), delta=ch.choice("w", [0.0001, 0.01], "delta")),
    "PiecewiseTreeRegressor": lambda ch: PiecewiseTreeRegressor(criterion=ch.choice("w", ["mselin", "simple"], "cr"), max_depth=ch.integer("w", 1, 3, "d"), min_samples_leaf=ch.integer("w", 2, 5, "msl")),
    "DecisionTreeLogisticRegression": lambda ch: DecisionTreeLogisticRegression(
        estimator=ch.choice("w", [None, "x"], "e") and LogisticRegression(C=0.5, max_iter=60), max_depth=ch.integer("w", 1, 4, "d"), fit_improve_algo=ch.choice("w", ["auto", "none", "intercept_sort"], "algo")
    ),
    "ExtendedFeatures": lambda ch: ExtendedFeatures(kind=ch.choice("w", ["poly", "poly-slow"], "kind"), poly_degree=ch.integer("w", 1, 3, "deg"), poly_interaction_only=ch.choice("w", [False, True], "io")),
    "IntervalRegressor": lambda ch: IntervalRegressor(estimator=_reg(ch), n_estimators=ch.integer("w", 1, 4, "ne"), alpha=ch.choice("w", [1.0, 0.5], "alpha")),
    "PredictableTSNE": lambda ch: PredictableTSNE(
        normalizer=ch.choice("w", [None, "x"], "n") and StandardScaler(), transformer=PCA(n_components=1), estimator=_reg(ch), normalize=ch.choice("w", [True, False], "nz")
    ),
    "TransferTransformer": lambda ch: _transfer(ch),
    "TransformedTargetRegressor2": lambda ch: TransformedTargetRegressor2(
        regressor=ch.choice("w", [None, "x"], "r") and _reg(ch), transformer=ch.choice("w", ["log", "log1p"], "t") if ch.boolean("w", 0.7, "s") else FunctionReciprocalTransformer("log1p")
    ),
    "TransformedTargetClassifier2": lambda ch: TransformedTargetClassifier2(
        classifier=ch.choice("w", [None, "x"], "c") and _clf(ch), transformer="permute" if ch.boolean("w", 0.7, "s") else PermutationReciprocalTransformer(random_state=1)
    ),
    "CategoriesToIntegers": lambda ch: CategoriesToIntegers(columns=ch.choice("w", [None, ["a"], "a"], "cols"), single=ch.choice("w", [False, True], "single"), skip_errors=ch.choice("w", [False, True], "se")),
    "TraceableCountVectorizer": lambda ch: TraceableCountVectorizer(ngram_range=ch.choice("w", [(1, 1), (1, 2)], "ng"), lowercase=ch.choice("w", [True, False], "lc")),
    "TraceableTfidfVectorizer": lambda ch: TraceableTfidfVectorizer(ngram_range=ch.choice("w", [(1, 1), (1, 2)], "ng"), use_idf=ch.choice("w", [True, False], "idf")),
    "FunctionReciprocalTransformer": lambda ch: FunctionReciprocalTransformer(ch.choice("w", ["log", "exp", "log1p"], "f")),
    "PermutationReciprocalTransformer": lambda ch: PermutationReciprocalTransformer(random_state=ch.choice("w", [None, 2], "rs"), closest=ch.choice("w", [False, True], "cl")),
    "ARTimeSeriesRegressor": lambda ch: ARTimeSeriesRegressor(estimator="dummy" if ch.boolean("w", 0.5, "d") else LinearRegression(), past=ch.integer("w", 1, 3, "past")),
}


def _fix_factory_values(inst_factory):
    return inst_factory


# the choice(...) and X idiom above yields "x" -> replace by a real object
def _build(name, ch):
    return FACTORIES[name](ch)


# string-valued parameters validated at construction time: legal alternatives
STR_DOMAIN = {
    "strategy": ["gain", "distance", "weights"],
    "norm": ["L1", "L2"],
    "kind": ["poly", "poly-slow"],
    "fit_improve_algo": ["auto", "none", "intercept_sort", "intercept_sort_always"],
    "fct": ["log", "exp", "log1p", "expm1"],
    "transformer": ["log", "log1p"],
}
# 'method' may only change on the sklapi wrappers around classifiers
METHOD_CLASSES = ("SkBaseTransformLearner", "SkBaseTransformStacking")
# parameters whose None may become an integer (and back)
NONE_DOMAIN = {"random_state": [None, 0, 3], "n_jobs": [None, 1, 2], "n_components": [None, 1, 2]}


def _new_value(ch, key, old, cls_name=None):
    """Returns (True, value) with a value different from *old*, or (False, None)."""
    leaf = key.split("__")[-1]
    if leaf == "method" and isinstance(old, str) and cls_name in METHOD_CLASSES:
        return True, "predict" if old != "predict" else "predict_proba"
    if leaf.startswith(("c_", "e_")):
        leaf = leaf[2:]
    if leaf.startswith("copy"):
        return False, None  # copy=False style options legitimately write into the caller's arrays
    if leaf in ("delay1", "delay2"):
        return False, None  # validated against each other by the time-series constructors
    if isinstance(old, bool) or isinstance(old, numpy.bool_):
        return True, (not bool(old))
    if old is None:
        if leaf in NONE_DOMAIN:
            alts = [v for v in NONE_DOMAIN[leaf] if v is not None]
            return True, ch.choice("w", alts, "none-alt")
        return False, None
    if isinstance(old, (int, numpy.integer)):
        if leaf in NONE_DOMAIN and ch.boolean("w", 0.3, "to-none"):
            return True, None
        v = int(old) + 1 + ch.draw("w", 2, "int-delta")
        # what numpy.arange / a grid of numpy values hands to set_params
        return True, (numpy.int64(v) if ch.boolean("w", 0.2, "numpy-int") else v)
    if isinstance(old, (float, numpy.floating)):
        v = float(old) * 0.5 + 0.125
        return True, (numpy.float64(v) if ch.boolean("w", 0.25, "numpy-float") else v)
    if isinstance(old, str):
        if leaf in STR_DOMAIN and "__" not in key and not key.startswith(("c_", "e_")):
            alts = [v for v in STR_DOMAIN[leaf] if v != old]
            if alts:
                return True, ch.choice("w", alts, "str-alt")
        return False, None
    if isinstance(old, tuple) and all(isinstance(x, (int, numpy.integer)) for x in old) and old:
        return True, tuple(int(x) for x in old[:-1]) + (int(old[-1]) + 1,)
    if isinstance(old, list) and old and all(hasattr(x, "get_params") for x in old):
        new = [clone(x) for x in old]
        if len(new) > 1 and ch.boolean("w", 0.5, "shorter"):
            new = new[:-1]
        return True, new
    if hasattr(old, "get_params") and not isinstance(old, type):
        # another estimator instance of the same family
        try:
            new = clone(old)
        except Exception:  # noqa: BLE001
            return False, None
        p = new.get_params(deep=False)
        for k2, v2 in sorted(p.items()):
            ok, nv = _new_value(ch, k2, v2)
            if ok and not hasattr(nv, "get_params") and not isinstance(nv, list):
                try:
                    new.set_params(**{k2: nv})
                    break
                except Exception:  # noqa: BLE001
                    continue
        return True, new
    return False, None


def _covers(cls_name, k, other):
    """True when setting key *k* may legitimately change key *other*."""
    if other == k or other.startswith(k + "__"):
        return True
    if cls_name == "SkBaseTransformStacking" and k == "models" and other.startswith("models_"):
        return True
    if cls_name == "SkBaseTransformStacking" and k == "method" and other.startswith("models_") and other.endswith("__method"):
        return True  # the stacking method is, by construction, the method of every wrapped member
    if cls_name == "ClassifierAfterKMeans":
        if k == "estimator" and other.startswith("e_"):
            return True
        if k == "clus" and other.startswith("c_"):
            return True
    # an indexed key covers the dict entry of its container value
    return False


def _flat(est):
    return est.get_params(deep=True)


def _same_value(a, b):
    if a is b:
        return True
    if hasattr(a, "get_params") or hasattr(b, "get_params"):
        return False
    if isinstance(a, (list, tuple)) and isinstance(b, (list, tuple)) and any(hasattr(x, "get_params") for x in list(a) + list(b)):
        return len(a) == len(b) and all(x is y for x, y in zip(a, b))
    try:
        r = a == b
        if isinstance(r, numpy.ndarray):
            return bool(r.all())
        return bool(r) and type(a) is type(b)
    except Exception:  # noqa: BLE001
        return False


def _equal_params(pa, pb, path=""):
    """Recursive equality of two parameter dicts: nested estimators are
    compared by type and parameters.  Returns a description or None."""
    if set(pa) != set(pb):
        return "%skeys differ: only in first %r, only in second %r" % (path, sorted(set(pa) - set(pb))[:4], sorted(set(pb) - set(pa))[:4])
    for k in sorted(pa):
        a, b = pa[k], pb[k]
        if hasattr(a, "get_params") and hasattr(b, "get_params") and not isinstance(a, type):
            if type(a) is not type(b):
                return "%s%s: %s vs %s" % (path, k, type(a).__name__, type(b).__name__)
            d = _equal_params(a.get_params(deep=False), b.get_params(deep=False), path + k + ".")
            if d:
                return d
        elif isinstance(a, (list, tuple)) and isinstance(b, (list, tuple)):
            if len(a) != len(b):
                return "%s%s: lengths %d vs %d" % (path, k, len(a), len(b))
            for i, (x, y) in enumerate(zip(a, b)):
                if hasattr(x, "get_params") and hasattr(y, "get_params"):
                    if type(x) is not type(y):
                        return "%s%s[%d]: %s vs %s" % (path, k, i, type(x).__name__, type(y).__name__)
                    d = _equal_params(x.get_params(deep=False), y.get_params(deep=False), "%s%s[%d]." % (path, k, i))
                    if d:
                        return d
                elif not _same_value(x, y):
                    return "%s%s[%d]: %r vs %r" % (path, k, i, x, y)
        elif callable(a) and callable(b) and not hasattr(a, "get_params"):
            if a is not b:
                return "%s%s: different callables" % (path, k)
        elif not _same_value(a, b) and not (isinstance(a, float) and isinstance(b, float) and numpy.isnan(a) and numpy.isnan(b)):
            return "%s%s: %r vs %r" % (path, k, a, b)
    return None


def _nested_objects(est, acc=None, depth=0):
    acc = {} if acc is None else acc
    if depth > 4:
        return acc
    try:
        p = est.get_params(deep=False)
    except Exception:  # noqa: BLE001
        return acc
    for k, v in p.items():
        vs = v if isinstance(v, (list, tuple)) else [v]
        for x in vs:
            if hasattr(x, "get_params") and not isinstance(x, type):
                acc[id(x)] = x
                _nested_objects(x, acc, depth + 1)
    return acc


def _fitted_attrs(est):
    out = []
    for k in getattr(est, "__dict__", {}):
        if k.endswith("_") and not k.endswith("__") and not k.startswith("_"):
            out.append(k)
    return out


class _Sim:
    def __init__(self, c, name):
        self.c = c
        self.name = name
        self.seen = set()

    def viol(self, oracle, detail, msg):
        sig = (PROP, oracle, self.name) + tuple(str(d) for d in detail)
        if sig in self.seen:
            return
        self.seen.add(sig)
        self.c.violation(PROP, oracle, sig, msg + " | scenario: " + repr(self.c.scenario))


def _check_clone(sim, c, x, why):
    ok, y = U.sut(c, "clone", clone, x)
    if not ok:
        detail = (type(y).__name__,)
        if sim.name == "SkBaseTransformStacking" and any(getattr(m, "method", x.method) != x.method for m in x.models if hasattr(m, "model")):
            detail += ("member-method-differs-from-stacking-method",)
        sim.viol("clone-raised", detail, "clone raised %s (%s); parameters: %s" % (U.short_exc(y), why, sorted(_safe_params(x))[:12]))
        return None
    try:
        d = _equal_params(x.get_params(deep=True), y.get_params(deep=True))
    except Exception as e:  # noqa: BLE001
        sim.viol("get_params-raised", ("clone", type(e).__name__), "get_params raised %s on a clone" % U.short_exc(e))
        return None
    if d:
        sim.viol("clone-params-differ", (d.split(":")[0].split(".")[-1][:30],), "clone reports different parameters: %s" % d)
    shared = set(_nested_objects(x)) & set(_nested_objects(y))
    if shared:
        sim.viol("clone-shares-object", (), "the clone shares %d nested estimator object(s) with the original" % len(shared))
    fitted = _fitted_attrs(y)
    ctor = set(_fitted_attrs(type(x).__new__(type(x)))) if False else set()
    allowed = {"method_"}  # set by the wrappers' constructor
    left = [a for a in fitted if a not in allowed and a not in ctor]
    if left:
        sim.viol("clone-carries-fitted-state", (left[0],), "the clone carries fitted attributes %r" % left[:5])
    return y


def _safe_params(x):
    try:
        return x.get_params(deep=True)
    except Exception:  # noqa: BLE001
        return {}


def _behaviour(c, sim, a, b):
    """Clones of a and b, fitted on the same data under the same seed, give
    equal outputs (only for classes of the registry that can be fitted)."""
    spec = R.BY_NAME.get(sim.name)
    if spec is None or sim.name in ("TransferTransformer", "SkBaseTransformStacking", "SkBaseTransformLearner"):
        return
    data = spec.data(c.ch, "T")
    outs = []
    # the thread schedule is not C01's subject (IntervalRegressor consumes the
    # global RNG in task order): both fits run their tasks sequentially
    c.force_sequential = True
    # clones of both instances, and the first instance itself: an object that
    # was reconfigured through set_params must behave like a fresh clone of it
    import copy

    plan = [(a, True), (b, True)]
    # a deep copy keeps whatever the instance derived from its parameters
    # (and does not leave fitted state on the live instance); instances that
    # already carry fitted state -- theirs or a nested estimator's -- are
    # left out: a warm start would legitimately differ from a clone
    pristine = not _fitted_attrs(a) or set(_fitted_attrs(a)) <= {"method_"}
    for o in _nested_objects(a).values():
        if _fitted_attrs(o):
            pristine = False
    if pristine:
        plan.append((a, False))
    for inst, use_clone in plan:
        if use_clone:
            ok, m = U.sut(c, "clone", clone, inst)
        else:
            try:
                ok, m = True, copy.deepcopy(inst)
            except Exception:  # noqa: BLE001
                continue
        if not ok:
            c.force_sequential = False
            return
        c.entropy = E.Entropy("pinned")
        numpy.random.seed(1234)
        data.restore()  # a nested copy_X=False / copy_x=False may write into X
        args, kw = spec.fit_args(data, {"norm": getattr(m, "norm", None)})
        if sim.name == "KMeansL1L2" and getattr(m, "norm", "L2") == "L1":
            kw = {}
        ok, r = U.sut(c, "fit", m.fit, *args, **kw)
        if not ok:
            c.probe("behaviour_fit_raised:" + sim.name)
            c.force_sequential = False
            return
        c.entropy = E.Entropy("pinned")
        numpy.random.seed(1234)
        o = {}
        for meth, tol in spec.methods:
            if hasattr(m, meth):
                ok, r = U.sut(c, meth, getattr(m, meth), data.Xp)
                o[meth] = ("raised", type(r).__name__, "") if not ok else numpy.asarray(r.toarray() if hasattr(r, "toarray") else r)
        outs.append(o)
    c.force_sequential = False
    c.probe("behaviour_compared")
    bad = R.same_outputs(spec, outs[0], outs[1], exact=True)
    c.log.ev("result", "behaviour", [(k, v[:2] if isinstance(v, tuple) else C.ahash(v)) for k, v in sorted(outs[0].items())])
    if bad:
        sim.viol("transplant-behaviour", (bad[0],), "after transplanting parameters the two instances report equal parameters but behave differently (%r)" % bad)
    elif len(outs) > 2:
        bad = R.same_outputs(spec, outs[0], outs[2], exact=True)
        if bad:
            sim.viol(
                "instance-vs-clone-behaviour",
                (bad[0],),
                "an instance reconfigured through set_params behaves differently from a clone of itself (%r): something derived from the parameters was not updated" % bad,
            )


def run(c, index, tier):
    ch = c.ch
    names = sorted(FACTORIES)
    name = ch.choice("w", names, "class")
    sim = _Sim(c, name)
    n_inst = ch.integer("w", 2, 3, "n-instances")
    c.scenario = {"class": name, "instances": n_inst, "ops": []}
    c.signature = [name]
    c.nontrivial = True
    c.entropy = E.Entropy("pinned")
    insts = []
    for i in range(n_inst):
        ok, x = U.sut(c, "construct", _construct, name, ch)
        if not ok:
            sim.viol("construct-raised", (type(x).__name__, U.where_raised(x)), "constructing %s with a valid configuration raised %s" % (name, U.short_exc(x)))
            return
        insts.append(x)
    # independently built instances own their nested objects
    for a in range(len(insts)):
        for b in range(a + 1, len(insts)):
            common = set(_nested_objects(insts[a])) & set(_nested_objects(insts[b]))
            if common:
                sim.viol(
                    "instances-share-object",
                    ("at-construction",),
                    "two independently constructed instances share %d nested estimator object(s): a set_params on one changes the other" % len(common),
                )
    try:
        c.scenario["configs"] = [repr(x)[:160] for x in insts]
    except Exception as e:  # noqa: BLE001
        c.scenario["configs"] = ["repr raised %s" % type(e).__name__]

    def params_of(x, what):
        try:
            return x.get_params(deep=True)
        except Exception as e:  # noqa: BLE001
            sim.viol("get_params-raised", (what, type(e).__name__), "get_params(deep=True) raised %s (%s)" % (U.short_exc(e), what))
            return None

    shallow_pairs = []
    nops = ch.integer("w", 4, 18, "nops")
    for k in range(nops):
        op = ch.weighted("w", [("set", 6), ("transplant", 3), ("clone", 2), ("get", 2), ("replace-by-clone", 1), ("fit", 1), ("set-multi", 2), ("set-other-family", 1), ("set-nothing", 1), ("shallow-copy", 1)], "op")
        i = ch.draw("w", len(insts), "which")
        x = insts[i]
        if len(c.scenario["ops"]) < 24:
            c.scenario["ops"].append(op)
        if op == "get":
            deep = params_of(x, "get")
            if deep is None:
                return
            try:
                shallow = x.get_params(deep=False)
            except Exception as e:  # noqa: BLE001
                sim.viol("get_params-raised", ("shallow", type(e).__name__), "get_params(deep=False) raised %s" % U.short_exc(e))
                return
            for kk, v in shallow.items():
                if kk not in deep or not (deep[kk] is v or _same_value(deep[kk], v)):
                    sim.viol("shallow-not-in-deep", (kk.split("_")[0],), "get_params(deep=False)[%r] is not reported identically by get_params(deep=True)" % kk)
                    break
        elif op == "set":
            before = [params_of(y, "before-set") for y in insts]
            if any(b is None for b in before):
                return
            keys = sorted(before[i])
            if not keys:
                continue
            # prefer keys whose value can be changed
            cand = []
            for kk in keys:
                cand.append(kk)
            kk = ch.choice("w", cand, "key")
            ok, v = _new_value(ch, kk, before[i][kk], name)
            if not ok:
                c.probe("key_without_alternative_value")
                continue
            ok, r = U.sut(c, "set_params", x.set_params, **{kk: v})
            if not ok:
                sim.viol(
                    "set_params-raised",
                    (_key_class(kk), type(r).__name__),
                    "set_params(%s=%r) raised %s although get_params advertises the key" % (kk, v if not hasattr(v, "get_params") else type(v).__name__, U.short_exc(r)),
                )
                return
            c.probe("set_nested" if "__" in kk else "set_top")
            if "_1" in kk and any(kk.startswith("models_%d__" % j) for j in range(10, 14)):
                c.probe("set_index_ge_10")
            if r is not x:
                sim.viol("set_params-return", (), "set_params returned %r instead of the estimator itself" % (type(r).__name__,))
            after = [params_of(y, "after-set") for y in insts]
            if any(a is None for a in after):
                return
            a_i = after[i]
            if kk not in a_i or not (a_i[kk] is v or _same_value(a_i[kk], v)):
                sim.viol(
                    "set-not-applied",
                    (_key_class(kk),),
                    "after set_params(%s=%r) get_params reports %r" % (kk, v if not hasattr(v, "get_params") else type(v).__name__, a_i.get(kk, "<missing>")),
                )
            # frame condition on this instance
            for k2 in sorted(set(before[i]) | set(a_i)):
                if _covers(name, kk, k2) or _covers(name, k2, kk):
                    continue
                if k2 not in before[i] or k2 not in a_i or not (before[i][k2] is a_i[k2] or _same_value(before[i][k2], a_i[k2])):
                    sim.viol(
                        "frame",
                        (_key_class(kk), "changed:" + _key_class(k2)),
                        "set_params(%s=...) also changed %r: %r -> %r" % (kk, k2, before[i].get(k2, "<missing>"), a_i.get(k2, "<missing>")),
                    )
                    break
            # other live instances: only through shared nested objects
            shared_i = set(_nested_objects(x))
            for j, y in enumerate(insts):
                if j == i or y is x:
                    continue
                if shared_i & set(_nested_objects(y)):
                    c.probe("aliasing_between_instances")
                    # objects that share nested estimators (a shallow copy): a
                    # top-level key holding a plain value still belongs to one
                    # object only
                    if "__" not in kk and not hasattr(v, "get_params") and not isinstance(v, list) and not kk.startswith(("e_", "c_", "models_")):
                        if kk in before[j] and kk in after[j] and not (before[j][kk] is after[j][kk] or _same_value(before[j][kk], after[j][kk])):
                            sim.viol("frame-other-instance", ("shallow-copy", _key_class(kk)), "set_params(%s=%r) on one object changed the same top-level parameter of its shallow copy: %r -> %r" % (kk, v, before[j][kk], after[j][kk]))
                    continue
                d = _equal_params(before[j], after[j])
                if d:
                    sim.viol("frame-other-instance", (), "set_params on one instance changed another instance that shares no object with it: %s" % d)
        elif op == "set-nothing":
            # the empty point of a parameter grid: no key, the estimator itself
            # comes back and nothing changes
            before = params_of(x, "before-set")
            if before is None:
                return
            ok, r = U.sut(c, "set_params()", x.set_params)
            if not ok:
                sim.viol("set_params-raised", ("no-key", type(r).__name__), "set_params() without any key raised %s" % U.short_exc(r))
                return
            if r is not x:
                sim.viol("set_params-return", ("no-key",), "set_params() without any key returned %r instead of the estimator itself" % (type(r).__name__,))
            after = params_of(x, "after-set")
            if after is None:
                return
            d = _equal_params(before, after)
            if d:
                sim.viol("frame", ("no-key",), "set_params() without any key changed the parameters: %s" % d)
            c.probe("set_params_without_keys")
        elif op == "shallow-copy":
            # copy.copy(est): another live object that shares the nested
            # objects but owns its top-level parameters
            import copy as _copy

            try:
                y2 = _copy.copy(x)
            except Exception:  # noqa: BLE001
                continue
            if len(insts) < 4:
                insts.append(y2)
                shallow_pairs.append((x, y2))
                c.probe("shallow_copy_taken")
        elif op == "set-other-family":
            # an estimator-valued parameter is replaced by an estimator of
            # another family (a regressor where a classifier was, as a grid over
            # models does) and then put back: each call changes the key it is
            # given and nothing else, whatever the object can do afterwards
            before = params_of(x, "before-set")
            if before is None:
                return
            slots = [kk for kk in sorted(before) if "__" not in kk and hasattr(before[kk], "get_params") and not isinstance(before[kk], type) and not kk.startswith(("e_", "c_", "models_"))]
            if not slots:
                continue
            kk = slots[ch.draw("w", len(slots), "slot")]
            old = before[kk]
            if hasattr(old, "predict_proba"):
                new = _reg(ch)
            elif hasattr(old, "predict"):
                new = _clf(ch)
            else:
                continue
            ok, r = U.sut(c, "set_params(other family)", x.set_params, **{kk: new})
            if not ok:
                c.probe("set_params_rejected_other_family")
                return
            mid = params_of(x, "after-set")
            if mid is None:
                return
            for k2 in sorted(set(before) | set(mid)):
                if "__" in k2 or _covers(name, kk, k2) or _covers(name, k2, kk):
                    continue
                if k2 not in before or k2 not in mid or not (before[k2] is mid[k2] or _same_value(before[k2], mid[k2])):
                    sim.viol("frame", (_key_class(kk), "changed:" + _key_class(k2), "other-family"), "set_params(%s=<%s>) also changed %r: %r -> %r" % (kk, type(new).__name__, k2, before.get(k2, "<missing>"), mid.get(k2, "<missing>")))
                    break
            ok, r = U.sut(c, "set_params(back)", x.set_params, **{kk: old})
            if not ok:
                return
            back = params_of(x, "after-set")
            if back is None:
                return
            d = _equal_params(before, back)
            if d:
                sim.viol("frame", (_key_class(kk), "not-restored", "other-family"), "replacing %s by a %s and putting the original object back does not restore the parameters: %s" % (kk, type(new).__name__, d))
            c.probe("estimator_replaced_by_another_family_and_back")
        elif op == "set-multi":
            # one call, several keys: a nested object is replaced AND one of
            # its parameters is given, in either keyword order
            before = params_of(x, "before-set-multi")
            if before is None:
                return
            objs = []
            for kk in sorted(before):
                v = before[kk]
                if hasattr(v, "get_params") and not isinstance(v, type) and "__" not in kk:
                    pre = {"estimator": "e_", "clus": "c_"}.get(kk, kk + "__") if name == "ClassifierAfterKMeans" else kk + "__"
                    if any(k2.startswith(pre) for k2 in before):
                        objs.append((kk, pre))
            if not objs:
                continue
            kk, pre = objs[ch.draw("w", len(objs), "multi-obj")]
            try:
                newobj = clone(before[kk])
            except Exception:  # noqa: BLE001
                continue
            inner = newobj.get_params(deep=False)
            cands = []
            for p2 in sorted(inner):
                ok2, nv = _new_value(ch, p2, inner[p2], None)
                if ok2 and not hasattr(nv, "get_params") and not isinstance(nv, list):
                    cands.append((p2, nv))
            if not cands:
                continue
            p2, nv = cands[ch.draw("w", len(cands), "multi-param")]
            old_obj = before[kk]
            old_val = old_obj.get_params(deep=False)[p2]
            nested_first = ch.boolean("w", 0.5, "nested-first")
            kwargs = {}
            if nested_first:
                kwargs[pre + p2] = nv
                kwargs[kk] = newobj
            else:
                kwargs[kk] = newobj
                kwargs[pre + p2] = nv
            ok, r = U.sut(c, "set_params(multi)", x.set_params, **kwargs)
            if not ok:
                sim.viol("set_params-raised", ("multi", type(r).__name__), "set_params(%s) raised %s" % (", ".join(kwargs), U.short_exc(r)))
                return
            c.probe("set_multi_nested_first" if nested_first else "set_multi_object_first")
            if r is not x:
                sim.viol("set_params-return", (), "set_params returned %r instead of the estimator itself" % (type(r).__name__,))
            after = params_of(x, "after-set-multi")
            if after is None:
                return
            landed = after.get(kk) is newobj and _same_value(after.get(pre + p2), nv) and _same_value(newobj.get_params(deep=False)[p2], nv)
            if not landed:
                sim.viol(
                    "set-not-applied",
                    ("multi", "nested-first" if nested_first else "object-first"),
                    "after set_params(%s) in one call, get_params reports %s=%r (expected %r) and the object %s" % (", ".join(kwargs), pre + p2, after.get(pre + p2, "<missing>"), nv, "was replaced" if after.get(kk) is newobj else "was not replaced"),
                )
            if not _same_value(old_obj.get_params(deep=False)[p2], old_val):
                sim.viol("frame", ("multi", "value-landed-on-replaced-object"), "set_params(%s) changed %s of the object that was being replaced" % (", ".join(kwargs), p2))
        elif op == "transplant":
            j = (i + 1 + ch.draw("w", len(insts) - 1, "from")) % len(insts)
            src = insts[j]
            if src is x:
                continue
            p = params_of(src, "transplant-source")
            if p is None:
                return
            ok, r = U.sut(c, "transplant", x.set_params, **p)
            if not ok:
                sim.viol(
                    "transplant-raised",
                    (type(r).__name__,),
                    "set_params(**other.get_params(deep=True)) raised %s: get_params does not report what rebuilds the object" % U.short_exc(r),
                )
                return
            if r is not x:
                sim.viol("set_params-return", (), "set_params returned %r instead of the estimator itself" % (type(r).__name__,))
            pa, pb = params_of(x, "after-transplant"), params_of(src, "after-transplant")
            if pa is None or pb is None:
                return
            # the source only lent its own values: it must report what it reported before
            dsrc = _equal_params(p, pb)
            if dsrc:
                sim.viol("transplant-changed-source", (dsrc.split(":")[0].split(".")[-1][:30],), "feeding an instance's get_params(deep=True) to another instance changed the first one: %s" % dsrc)
            d = _equal_params(pa, pb)
            if d:
                sim.viol("transplant-params-differ", (d.split(":")[0].split(".")[-1][:30],), "after feeding one instance's get_params(deep=True) to another the two report different parameters: %s" % d)
            else:
                c.probe("transplant_done")
                if ch.boolean("w", 0.35, "behaviour"):
                    _behaviour(c, sim, x, src)
        elif op == "clone":
            _check_clone(sim, c, x, "op")
        elif op == "replace-by-clone":
            y = _check_clone(sim, c, x, "replace")
            if y is None:
                return
            insts[i] = y
        elif op == "fit":
            spec = R.BY_NAME.get(name)
            if spec is None or name in ("TransferTransformer",):
                continue
            data = spec.data(ch, "F")
            c.entropy = E.Entropy("pinned")
            numpy.random.seed(99)
            args, kw = spec.fit_args(data, {"norm": getattr(x, "norm", None)})
            U.sut(c, "fit", x.fit, *args, **kw)
            c.probe("fit_between_protocol_calls")
    # final: every instance clones
    for x in insts:
        _check_clone(sim, c, x, "final")
    c.log.ev("result", "params", [sorted(_safe_params(x).keys())[:40] for x in insts])
    c.signature = [name, n_inst, "/".join(c.scenario["ops"])]


def _key_class(k):
    """Coarse class of a key for signatures: top / nested / indexed>=10 / ..."""
    if k.startswith("models_"):
        head = k[len("models_") :].split("__")[0]
        if head.isdigit():
            return "models_<i>=%s__..." % ("ge10" if int(head) >= 10 else "lt10")
    if "__" in k:
        return k.split("__")[0] + "__..."
    if k.startswith(("c_", "e_")):
        return k[:2] + "..."
    if k in ("alpha", "beta", "gamma", "k"):
        return "kwarg"  # free keyword parameter of the SkBase family
    return k


def _construct(name, ch):
    x = _build(name, ch)
    return x
