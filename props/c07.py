"""C07 -- ConstraintKMeans produces clusters of equal size (strategies
'distance' and 'gain'), for every draw of the environment entropy its balancing
code consumes (numpy.random.rand / permutation on the global RNG, the global
generator obtained for the leftover allocation).  DESIGN §4 C07.
"""
import numpy

from dsim import ctx as C
from dsim import entropy as E
from props import common as U

from mlinsights.mlmodel import ConstraintKMeans

PROP = "C07"


def _viol(c, seen, oracle, detail, msg):
    sig = (PROP, oracle) + tuple(str(d) for d in detail)
    if sig in seen:
        return
    seen.add(sig)
    c.violation(PROP, oracle, sig, msg + " | scenario: " + repr(c.scenario))


def _data(ch, rs, n, d, style):
    if style == "normal":
        X = rs.randn(n, d)
    elif style == "clusters":
        k0 = max(1, n // 5)
        X = (rs.randn(k0, d) * 5)[rs.randint(0, k0, n)] + rs.randn(n, d) * 0.3
    elif style == "duplicates":
        m = max(1, n // 3)
        X = rs.randn(m, d)[rs.randint(0, m, n)]
    elif style == "collinear":
        t = rs.randn(n)
        X = numpy.stack([t * (j + 1) for j in range(d)], axis=1)
    elif style == "grid":
        X = rs.randint(0, 4, (n, d)).astype(float)
    else:
        X = numpy.sort(rs.randn(n, d), axis=0)
    return numpy.ascontiguousarray(X, dtype=numpy.float64)


def _balanced(hist, total, k):
    lo, hi = total // k, -(-total // k)
    return int(hist.sum()) == total and all(lo <= int(h) <= hi for h in hist)


def _bucket(r):
    return "n%k=0" if r == 0 else ("n%k=1" if r == 1 else "n%k>=2")


def run(c, index, tier):
    ch = c.ch
    seen = set()
    k = ch.weighted("w", [(j, 3) for j in range(1, 8)] + [(j, 1) for j in range(8, 14)], "k")  # beyond the default n_clusters=8 too
    n = k + ch.draw("w", 54, "n-k")
    if ch.boolean("w", 0.3, "small-n"):
        n = k + ch.draw("w", 2 * k + 1, "n-small")
    d = ch.integer("w", 1, 3, "d")
    style = ch.choice("w", ["normal", "clusters", "duplicates", "collinear", "grid", "sorted"], "style")
    data_seed = ch.subseed("w", "data")
    rs = numpy.random.RandomState(data_seed)
    X = _data(ch, rs, n, d, style)
    xdtype = ch.weighted("w", [("float64", 6), ("int64", 1), ("float32", 1)], "xdtype")
    if xdtype == "int64":
        X = numpy.round(X * 6).astype(numpy.int64)  # count-like data (ties and duplicates included)
    elif xdtype == "float32":
        X = X.astype(numpy.float32)
    strategy = ch.choice("w", ["gain", "distance"], "strategy")
    kmeans0 = ch.weighted("w", [(True, 2), (False, 1)], "kmeans0")
    random_state = ch.choice("w", [None, 0, 5], "rs")
    max_iter = ch.choice("w", [100, 10, 4, 2, 3, 5, 7, 11], "max_iter")
    weights = None
    if ch.boolean("w", 0.15, "weights"):
        weights = numpy.round(rs.rand(n) + 0.5, 3)
    mode = "adversarial" if ch.draw("r", 4, "entropy-mode") != 3 else "pinned"
    g = ch.subseed("r", "global-seed")
    batches = []
    for b in range(ch.integer("w", 1, 3, "n-batches")):
        m = ch.weighted("w", [(1, 2), (k, 2), (k + 1, 2), (2 * k + 3, 2), (0, 6), (-1, 1)], "m")
        if m == 0:
            m = 1 + ch.draw("w", 40, "m-any")
        elif m == -1:
            m = 257 + ch.draw("w", 80, "m-large")  # larger than any internal block size one would pick
            c.probe("large_prediction_batch")
        src = ch.choice("w", ["train", "new", "mixed"], "batch-src")
        if src == "train":
            Xb = X[rs.randint(0, n, m)]
        elif src == "new":
            Xb = (_data(ch, rs, m, d, style) * 1.3).astype(X.dtype)
        else:
            Xb = numpy.vstack([X[rs.randint(0, n, m - m // 2)], rs.randn(m // 2, d).astype(X.dtype)]).astype(X.dtype)
        batches.append(numpy.ascontiguousarray(Xb))
    c.scenario = {
        "n": n,
        "k": k,
        "n_mod_k": n % k,
        "d": d,
        "style": style,
        "dtype": xdtype,
        "strategy": strategy,
        "kmeans0": kmeans0,
        "random_state": random_state,
        "max_iter": max_iter,
        "sample_weight": weights is not None,
        "entropy": mode,
        "batch_sizes": [int(b.shape[0]) for b in batches],
        "data_seed": data_seed,
    }
    c.signature = [k, n % k if n % k < 2 else 2, style, strategy, kmeans0, random_state is None, max_iter, mode, weights is not None]
    c.probe(_bucket(n % k))
    c.probe("strategy_" + strategy)

    def env():
        c.entropy = E.Entropy(mode)
        numpy.random.seed(g % (2**32 - 1))

    env()
    model = ConstraintKMeans(n_clusters=k, strategy=strategy, kmeans0=kmeans0, random_state=random_state, max_iter=max_iter, n_init=2)
    if ch.boolean("w", 0.2, "fitted-before-with-weights-strategy"):
        # the same object was fitted before with the third strategy ('weights',
        # which learns per-cluster weights) and is reconfigured with set_params
        model.set_params(strategy="weights")
        ok0, _ = U.sut(c, "fit(before, strategy='weights')", model.fit, X)
        model.set_params(strategy=strategy)
        c.scenario["fitted_before_with_weights_strategy"] = bool(ok0)
        c.probe("fitted_before_with_weights_strategy")
        env()
    Xc = X.copy()
    try:
        if weights is None:
            ok, r = U.sut(c, "fit", model.fit, X)
        else:
            ok, r = U.sut(c, "fit", model.fit, X, sample_weight=weights)
    except C.StepCapExceeded as e:
        _viol(c, seen, "liveness", ("fit", strategy), "fit did not return within the step cap (%s)" % e)
        return
    c.nontrivial = bool(c.seam_calls)
    if not ok:
        _viol(
            c,
            seen,
            "fit-raised",
            (type(r).__name__, U.where_raised(r), strategy, _bucket(n % k) if xdtype == "float64" else "dtype=" + xdtype),
            "fit raised %s on a data set with n=%d >= k=%d" % (U.short_exc(r), n, k),
        )
        return
    if r is not model:
        _viol(c, seen, "fit-returns-self", (), "fit did not return the estimator")
    if not numpy.array_equal(Xc, X):
        _viol(c, seen, "inputs-modified", (), "fit modified X")
    labels = numpy.asarray(model.labels_)
    centers = numpy.asarray(model.cluster_centers_)
    c.log.ev("result", "fit", C.ahash(labels), C.ahash(centers))
    if labels.shape != (n,) or labels.min() < 0 or labels.max() >= k or labels.dtype.kind not in "iu":
        _viol(c, seen, "labels-range", ("fit",), "labels_ are not valid cluster indices: %r" % sorted(set(labels.tolist())))
        return
    hist = numpy.bincount(labels, minlength=k)
    if not _balanced(hist, n, k):
        _viol(
            c,
            seen,
            "sizes",
            ("fit", strategy, _bucket(n % k)),
            "cluster sizes %r for n=%d, k=%d: every cluster must have %d or %d points" % (hist.tolist(), n, k, n // k, -(-n // k)),
        )
    if centers.shape != (k, d) or not numpy.all(numpy.isfinite(centers)):
        _viol(c, seen, "centres", (strategy,), "cluster_centers_ has shape %r / non-finite values" % (centers.shape,))
        return
    if not (0 <= int(model.n_iter_) <= max_iter):
        _viol(c, seen, "n_iter", (strategy,), "n_iter_=%r exceeds max_iter=%d" % (model.n_iter_, max_iter))

    # ---- predictions
    held = [("labels_ of fit", labels, C.ahash(labels))]
    truthy = ch.choice("w", ["True", "numpy.True_"], "balanced-value")
    for bi, Xb in enumerate(batches):
        m = Xb.shape[0]
        model.balanced_predictions = False
        env()
        ok, p = U.sut(c, "predict", model.predict, Xb)
        if not ok:
            _viol(c, seen, "predict-raised", ("plain", type(p).__name__, U.where_raised(p)), "predict raised %s" % U.short_exc(p))
        else:
            p = numpy.asarray(p)
            dist = ((Xb[:, None, :].astype(numpy.float64) - centers[None, :, :].astype(numpy.float64)) ** 2).sum(axis=2)
            if p.shape != (m,) or p.min() < 0 or p.max() >= k:
                _viol(c, seen, "labels-range", ("predict",), "predict returned invalid labels")
            else:
                chosen = dist[numpy.arange(m), p]
                best = dist.min(axis=1)
                # the library's distances come from the |x|^2 - 2xc + |c|^2
                # expansion in the dtype of the data: rounding is relative to
                # the squared norms, not to the distance
                Xb64, c64 = Xb.astype(numpy.float64), centers.astype(numpy.float64)
                scale = 1 + best + (Xb64**2).sum(axis=1) + (c64**2).sum(axis=1).max()
                if numpy.any(chosen > best + (1e-5 if Xb.dtype == numpy.float32 else 1e-9) * scale):
                    i = int(numpy.argmax(chosen - best))
                    _viol(c, seen, "nearest-centre", (), "predict gave row %d label %d at squared distance %r while centre %d is at %r" % (i, p[i], chosen[i], int(numpy.argmin(dist[i])), best[i]))
            c.log.ev("result", "predict", bi, C.ahash(p))
        model.balanced_predictions = True if truthy == "True" else numpy.True_  # what a grid over a numpy array of booleans sets
        env()
        try:
            ok, pb = U.sut(c, "predict(balanced)", model.predict, Xb)
        except C.StepCapExceeded as e:
            _viol(c, seen, "liveness", ("predict", strategy), "balanced predict did not return within the step cap (%s)" % e)
            return
        if not ok:
            _viol(
                c,
                seen,
                "predict-raised",
                ("balanced", type(pb).__name__, U.where_raised(pb), strategy, "m<k" if m < k else _bucket(m % k).replace("n%", "m%")),
                "balanced predict raised %s on a batch of %d rows (k=%d)" % (U.short_exc(pb), m, k),
            )
            continue
        pb = numpy.asarray(pb)
        held.append(("balanced labels of batch %d" % bi, pb, C.ahash(pb)))
        c.log.ev("result", "predict-balanced", bi, C.ahash(pb))
        if pb.shape != (m,) or pb.min() < 0 or pb.max() >= k:
            _viol(c, seen, "labels-range", ("predict-balanced",), "balanced predict returned invalid labels %r" % sorted(set(pb.tolist())))
            continue
        hb = numpy.bincount(pb, minlength=k)
        c.probe("balanced_predict_" + ("m<k" if m < k else _bucket(m % k).replace("n%", "m%")))
        if not _balanced(hb, m, k):
            _viol(
                c,
                seen,
                "sizes",
                ("predict", strategy, "m<k" if m < k else _bucket(m % k).replace("n%", "m%")),
                "balanced predict gave cluster sizes %r for m=%d, k=%d: every cluster must have %d or %d points" % (hb.tolist(), m, k, m // k, -(-m // k)),
            )
    model.balanced_predictions = False
    # the caller still holds the arrays the earlier calls returned
    for what, arr, h in held:
        if C.ahash(arr) != h:
            _viol(c, seen, "result-overwritten", (what.split(" of ")[0],), "the %s, kept by the caller, were modified in place by a later call" % what)
            break
