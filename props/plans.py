"""Pure-python tables shared by the parent runner and the workers: number of
runs per tier, evidence metadata.  Run counts are fixed numbers (not time
driven) so that the executed seeds are a function of VERIF_SEED and the tier."""

DETERMINISM_SAMPLE = {"quick": 64, "thorough": 1024}

_COMPONENTS_COMMON = {
    "real": [
        "mlinsights (python sources imported from the repository working tree)",
        "mlinsights compiled criteria / tree helpers (rebuilt from the working tree's .pyx)",
        "scikit-learn 1.9.1, numpy, scipy, pandas",
        "joblib.delayed",
    ],
    "stub": [
        "joblib.Parallel -> dsim.sched.SimParallel (baton-passing real threads, seeded scheduler)",
        "numpy.random sampling entry points and unseeded RandomState() as seen from mlinsights modules -> dsim.entropy (decided by stream r)",
    ],
}

PLANS = {}
META = {}


def register(prop, quick, thorough, level, rule, assumptions, probes=(), components=None):
    PLANS[prop] = {"quick": quick, "thorough": thorough}
    META[prop] = {
        "level": level,
        "rule": rule,
        "assumptions": list(assumptions),
        "probes": list(probes),
        "components": components or _COMPONENTS_COMMON,
    }


register(
    "C08",
    quick=600,
    thorough=5000,
    level="exploration",
    rule=(
        "one run = one generated scenario (estimator kind, binner, local peer estimator, data, labels, "
        "weights, query batch incl. rows in cells unseen at training) executed once sequentially "
        "(n_jobs=None) and then under K drawn (n_jobs, scheduler mode, granularity) schedules "
        "(K=8 quick, 24 thorough) with the partition/record/routing oracles after every execution "
        "and the result digest compared with the sequential one; non-trivial = at least one threaded "
        "SimParallel call had >= 2 tasks in flight or the entropy seam was consulted; distinct = "
        "distinct (scenario signature without data seed, schedule digest, fault set)"
    ),
    assumptions=[
        "pre-emption points are python line / bytecode boundaries inside mlinsights and the peer estimators; a switch inside one C call of numpy/scikit-learn is not explored",
        "SimParallel follows joblib's threading backend (pre_dispatch=2*n_jobs, results in task order) but drains in-flight tasks before re-raising",
        "OS entropy (unseeded RandomState()) is modelled as an arbitrary value that is a function of the task index, so that sequential and threaded executions can be compared",
        "local estimators are peers (recording subclasses of scikit-learn estimators or Tag estimators)",
    ],
    probes=[
        "bucket_lacked_a_class",
        "unseen_bucket_at_predict",
        "preempt_inside_task",
        "switch_with_two_tasks_in_flight",
        "unseeded_RandomState",
        "labels_str",
        "weights_given",
    ],
)

register(
    "C02",
    quick=1300,
    thorough=24000,
    level="fault_enumeration",
    rule=(
        "one run = one generated scenario (estimator class from the registry with peers in every estimator slot, "
        "configuration, data, history template over F=failing fit, O=successful fit, P=predict/transform, S=score, "
        "Q=predict/transform with an inner estimator failing: every predict-time site is failed once too); "
        "a dry run lists the N fault sites (task index, peer class, method, ordinal) reached by fit and EVERY single "
        "site is failed once (quick; pairs of sites in consecutive fits in thorough), or every applicable "
        "invalid-data kind is tried, or (third failing mode) the Python-level calls that leave mlinsights during fit "
        "are numbered by a dry run and call k raises ValueError / RuntimeError / MemoryError / an interruption "
        "(all k when at most 16 quick / 48 thorough, else that many drawn); after every operation parameters and caller arrays are compared, and the last "
        "successful fit is compared bit-for-bit with a fresh estimator fitted under the same global seed, entropy "
        "and (taped) thread schedule; non-trivial = at least one fault fired or invalid input was rejected, or a "
        "multi-operation history ran; distinct = distinct (class, template, config, fault set, schedule digest)"
    ),
    assumptions=[
        "fault sites are the fit/transform/predict calls on peer estimators (subclasses of real scikit-learn estimators) and, in the foreign-call mode, every Python-level call from mlinsights into scikit-learn / numpy / the harness made in the caller's thread; failures inside C-implemented numpy functions are only reached through invalid data",
        "single-fault enumeration per scenario is exhaustive for the scenario's sites; scenarios themselves are sampled",
        "QuantileMLPRegressor, ARTimeSeriesRegressor, mlbatch and search_rank cannot run in this environment (scikit-learn 1.9 / numpy 2 incompatibilities) and are not exercised",
        "configurations documented to write into their input (copy_x=False, copy_X=False) are generated but exempt from the data-unchanged oracle",
    ],
    probes=[
        "fault_while_other_task_in_flight",
        "fault_swallowed",
        "invalid_data_accepted",
        "scenario_without_fault_site",
        "preempt_inside_task",
        "fit_failed_at_a_foreign_call",
        "foreign_calls_total",
    ],
)

register(
    "C17",
    quick=4000,
    thorough=120000,
    level="exploration",
    rule=(
        "one run = one IntervalRegressor scenario (n in 1..12, alpha with alpha*n away from half-integers, "
        "n_estimators 1..8, recording base regressor, optional distinct weights, n_jobs None/2/3 under a drawn "
        "schedule); the entropy seam answers every numpy.random request made by the library -- adversarially in "
        "3/4 of the runs (both ends of the requested range forced into every resample), from the pinned global "
        "RNG otherwise -- and logs what was asked; oracles: requested support = all n rows and size = "
        "round(alpha*n), every fitted model's record is rows of the table with their own target and weight, "
        "rows 0 and n-1 drawn when the seam returned both extremes, predict = mean / predict_sorted = sorted rows "
        "of predict_all; non-trivial = the seam was consulted; distinct = distinct (n, alpha, n_estimators, base, "
        "weights, n_jobs, entropy mode, schedule digest)"
    ),
    assumptions=[
        "resampling is observed at the numpy.random seam of mlinsights.mlmodel.interval_regressor (randint / choice requests); an implementation drawing indices by other means is judged by the record-level oracle only",
        "base regressors are recording peers (LinearRegression, DummyRegressor, DecisionTreeRegressor subclasses, TagRegressor)",
        "training rows, targets and weights are pairwise distinct so that a record identifies the rows it was drawn from",
    ],
    probes=["n_equals_1", "draw_at_range_maximum", "draw_at_range_minimum", "two_resample_tasks_interleaved", "preempt_inside_task"],
)

register(
    "C03",
    quick=2500,
    thorough=100000,
    level="exploration",
    rule=(
        "one run = one estimator class/configuration from the registry (n_jobs forced to None) and two training "
        "sets A, B drawn independently (different n, d, label sets and label types); history fit(A) [predict] fit(B) "
        "on one instance vs a fresh estimator fitted on B under the same numpy global seed and the same (taped) "
        "OS-entropy answers (O1, bit equality of outputs on a probe batch that also contains rows of A, and of "
        "fitted attributes); a second fresh fit with the same global seed but other OS-entropy answers (O2); for "
        "classes documenting it, another global seed with an integer random_state (O3); runs with string labels "
        "are re-executed in an interpreter with another PYTHONHASHSEED and result digests compared; "
        "non-trivial = every run (two fits on different data); distinct = distinct (class, config, label types, dims)"
    ),
    assumptions=[
        "OS entropy is modelled by the unseeded numpy.random.RandomState() constructor as seen from mlinsights modules; os.urandom / time based seeding elsewhere is not intercepted (none exists in the anchored code)",
        "the thread schedule is excluded here (n_jobs=None): schedule independence is C08's statement",
        "estimator slots are filled with peers; scikit-learn's own estimators are trusted to be deterministic under a fixed global seed",
    ],
    probes=["unseeded_RandomState", "labels_str", "documented_determinism_checked"],
)

register(
    "C07",
    quick=2500,
    thorough=100000,
    level="exploration",
    rule=(
        "one run = one ConstraintKMeans scenario (k in 1..7, n in k..k+53 with all residues n mod k, d in 1..3, "
        "data style incl. duplicates / collinear / integer grids, strategy gain|distance, kmeans0, random_state, "
        "max_iter incl. tiny values, optional sample weights) fitted with the entropy seam answering every "
        "numpy.random request of the balancing code adversarially (3/4 of the runs: all-zero / all-(1-eps) uniforms, "
        "identity / reversed / rotated permutations, range extremes) or from the pinned global RNG, then 1..3 "
        "prediction batches of any size (m < k, m mod k in {0,1,>=2}) predicted plainly and balanced; oracles: label "
        "range, histogram entries in {floor, ceil}, finite centres, n_iter_ <= max_iter, plain predict = nearest "
        "centre (ties accepted), seam-call cap as bounded liveness; non-trivial = the seam was consulted; distinct = "
        "distinct (k, residue class, style, strategy, kmeans0, random_state kind, max_iter, entropy mode, weights)"
    ),
    assumptions=[
        "strategy 'weights' is outside the statement and not generated",
        "the entropy consumed by the balancing code enters through numpy.random.rand / permutation and check_random_state(None) as seen from mlinsights modules",
        "KMeans (scikit-learn) is trusted for the initial clustering",
    ],
    probes=["n%k=0", "n%k=1", "n%k>=2", "strategy_gain", "strategy_distance", "balanced_predict_m<k", "balanced_predict_m%k>=2"],
)

register(
    "C04",
    quick=3000,
    thorough=120000,
    level="exploration",
    rule=(
        "one run = one fitted estimator with row-wise semantics from the registry (balanced prediction of the "
        "size-constrained k-means is never generated: documented exception) and a batch made of training rows, new "
        "rows and far-away rows (unseen buckets / leaves); reference model = row id -> row of the first full-batch "
        "output per method; 4..14 operations: sub-batch, permutation, single row, duplicated rows, repeat, pickle "
        "round trip (restart from durable state), clone_with_fitted_parameters, set n_jobs (calls then run under a "
        "drawn thread schedule); every output row must equal the reference (exact for labels / leaf ids, rtol 1e-9 "
        "otherwise); non-trivial = every run with a successful fit; distinct = distinct (class, config, operation "
        "sequence digest via schedule digest)"
    ),
    assumptions=[
        "a method whose reference full-batch call raises is dropped for the scenario and counted (C04 promises batch independence, not that every method exists)",
        "batch-vs-row floating point differences up to rtol 1e-9 / atol 1e-12 are accepted for BLAS-backed outputs",
        "peers stand for inner estimators; they pickle by reference to dsim.peers",
    ],
    probes=["row_in_unseen_bucket", "single_row_batch", "restart_pickle", "restart_cwfp", "schedule_switch_inside_predict"],
)

register(
    "C15",
    quick=3000,
    thorough=100000,
    level="exploration",
    rule=(
        "one run = one wrapper scenario: SkBaseTransformLearner (8 wrapped model kinds x method None / named / "
        "callable), SkBaseTransformStacking (1..4 members: learners, already wrapped learners, transformers) or "
        "TransferTransformer (7 pre-fitted inner kinds x method x copy_estimator x trainable) driven through a "
        "generated history of fit / transform / set_params(model=) / set_params(method=) / clone / refit on other "
        "data / fit with the inner peer's fit failing (fault plan); reference = independently built and directly "
        "fitted models (hstack for stacking), recording peers for the training data, pickle+prediction digests of "
        "the original estimator for the frozen / copy clauses; non-trivial = every run; distinct = distinct "
        "(wrapper, inner kinds, method, flags, fault set)"
    ),
    assumptions=[
        "wrapped models are peers (recording subclasses of scikit-learn estimators with unchanged signatures)",
        "outputs compared with rtol 1e-9 / atol 1e-12",
        "the 'chosen method' is the one last configured by the user (constructor or set_params), or the wrapper's reported default",
    ],
    probes=["model_replaced", "method_replaced", "inner_fit_failed"],
)

register(
    "C01",
    quick=4000,
    thorough=150000,
    level="exploration",
    rule=(
        "one run = two or three live instances of one exported class (30 classes: sklapi bases and wrappers incl. "
        "stacking of 1..13 members, every estimator of mlmodel.__init__, reciprocal transformers, "
        "ARTimeSeriesRegressor) built from independently drawn configurations, driven through 4..18 protocol "
        "operations: get_params(deep / shallow), set_params(k=v) for an advertised key with a value different from "
        "the current one (numbers, strings from the legal set, None<->int, another estimator, a new list), "
        "set_params(**other.get_params(deep=True)) (aliasing nested objects between instances), clone, replace by "
        "clone, fit on tiny data; reference model = the flat parameter dict per instance with a frame condition; "
        "behavioural equality of transplanted instances is checked by fitting clones of both; "
        "non-trivial = every run; distinct = distinct (class, number of instances, operation sequence)"
    ),
    assumptions=[
        "no fault, schedule or entropy dimension exists for this property: the simulator contributes generated histories, the dict reference model, replay and minimisation only",
        "string parameters are only changed to values of a known legal set (constructors such as ConstraintKMeans validate them)",
        "QuantileMLPRegressor is not exercised (its constructor raises under scikit-learn 1.9: the parent MLP no longer accepts the forwarded arguments); ARTimeSeriesRegressor takes part in the protocol checks only",
    ],
    probes=["set_nested", "set_top", "set_index_ge_10", "transplant_done", "behaviour_compared", "aliasing_between_instances", "fit_between_protocol_calls"],
)

register(
    "C13",
    quick=1200,
    thorough=30000,
    level="exploration",
    rule=(
        "permutation clause (3/4 of the runs): one run = a label set of size k (2..9) of type int / arbitrary int / "
        "str / float(+NaN), data, an exactly permutation-equivariant learner (1-NN, GaussianNB, seeded tree); the "
        "entropy seam forces numpy.random.permutation to return EVERY permutation of k labels in turn for k <= 4 "
        "(quick) / 5 (thorough) -- exhaustive over permutations, identity included but never the only one -- and "
        "draws adversarially for larger k; per permutation: transformer round trip (X same object, targets back, NaN "
        "kept), TransformedTargetClassifier2 predictions / probabilities / classes_ against the plain classifier. "
        "function-name clause (1/4): each of the six names on targets of its domain, round trip and a recording "
        "regressor inside TransformedTargetRegressor2 (no schedule/fault/entropy dimension, counted apart). "
        "non-trivial = permutation runs in which the seam was consulted, all function runs; distinct = distinct "
        "(clause, k, label type, learner / function name, NaN)"
    ),
    assumptions=[
        "which permutation is drawn reaches the library only through numpy.random.permutation (random_state=None) -- owned by the seam; an integer random_state is an input and is sampled",
        "closest=True (TransformedTargetRegressor2 with 'permute') is not exercised: PermutationReciprocalTransformer._find_closest cannot run under numpy 2",
        "equivariant learners: KNeighborsClassifier(1) exact, GaussianNB atol 1e-8, DecisionTreeClassifier(random_state=0) atol 1e-9 on class-shifted continuous data",
    ],
    probes=["non_identity_permutation", "exhaustive_permutations_k2", "exhaustive_permutations_k3", "exhaustive_permutations_k4", "labels_str", "function_name_clause"],
)

register(
    "C18",
    quick=1500,
    thorough=50000,
    level="exploration",
    rule=(
        "only non_linear_correlations is addressed (the r2_score_comparable sentence is a pure function and is not "
        "covered). one run = one numeric table (n 4..36, 1..4 columns of kinds normal / constant / collinear / "
        "integer / two-step), a peer model (LinearRegression, tree, dummy), draws 1..4, minmax on/off; the "
        "module-level train_test_split is replaced by a simulator-owned splitter returning legal half/half splits "
        "chosen adversarially from stream r (first/last halves, sorted and reverse-sorted by a column, interleaved, "
        "seeded random) in 2/3 of the runs and delegating to the real function under a simulator seed otherwise; "
        "the same taped splits are replayed for the DataFrame call and for a call in which a drawn fit/predict site "
        "of the model fails; oracles: shape, labels, [0,1] and no NaN, min<=mean<=max, frame==array, unit diagonal "
        "for the linear model, input bytes unchanged (also after the failing call); non-trivial = every run; "
        "distinct = distinct (d, column kinds, model, draws, minmax, split mode, fault, n bucket)"
    ),
    assumptions=[
        "weak fit for this technique, stated as such: the only environment entropy is the split; r2_score_comparable is not covered",
        "the split reaches the function only through the module-level name train_test_split of mlinsights.metrics.correlations",
        "models are peers; LinearRegression is the 'model able to learn the identity'",
    ],
    probes=["sorted_split", "column_constant", "column_collinear", "model_failed_inside_call"],
)
