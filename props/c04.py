"""C04 -- predictions are a pure per-row function of the fitted model and
survive persistence: sub-batches, permutations, single rows, duplicated rows
and repeated calls agree with the first full-batch output, also after a pickle
round trip ("restart with only durable state") or clone_with_fitted_parameters,
and under drawn thread schedules where the class has n_jobs.  DESIGN §4 C04.
"""
import pickle

import numpy

from dsim import ctx as C
from dsim import entropy as E
from dsim import peers as P
from props import common as U
from props import registry as R

from mlinsights.mlmodel.sklearn_testing import clone_with_fitted_parameters

PROP = "C04"

ROWWISE_SPECS = [s for s in R.SPECS if s.rowwise]


def _viol(c, seen, spec, oracle, detail, msg):
    sig = (PROP, oracle, spec.name) + tuple(str(d) for d in detail)
    if sig in seen:
        return
    seen.add(sig)
    c.violation(PROP, oracle, sig, msg + " | scenario: " + repr(c.scenario))


def _call(c, est, m, Xb):
    ok, r = U.sut(c, m, getattr(est, m), Xb)
    if not ok:
        return False, r
    if hasattr(r, "toarray"):
        r = r.toarray()
    if hasattr(r, "columns") and hasattr(r, "values"):
        # a frame: its values, row by row
        r = r.values
    return True, numpy.asarray(r)


def _scribble(obj, depth=0, seen=None):
    """What training the original in place does to its fitted arrays (partial
    fits, warm starts): every writeable numeric array reachable from the fitted
    attributes is overwritten.  A copy that shares memory with it changes."""
    seen = set() if seen is None else seen
    if id(obj) in seen or depth > 6:
        return 0
    seen.add(id(obj))
    n = 0
    if isinstance(obj, numpy.ndarray):
        if obj.dtype.kind in "fiu" and obj.flags.writeable and obj.size:
            obj[...] = 77 if obj.dtype.kind in "iu" else -12345.678
            n += 1
        return n
    if isinstance(obj, (list, tuple)):
        for v in obj:
            n += _scribble(v, depth + 1, seen)
    elif isinstance(obj, dict):
        for v in obj.values():
            n += _scribble(v, depth + 1, seen)
    elif hasattr(obj, "get_params") and hasattr(obj, "__dict__"):
        for k, v in list(vars(obj).items()):
            if k.endswith("_") and not k.startswith("__"):
                n += _scribble(v, depth + 1, seen)
            elif hasattr(v, "get_params") or isinstance(v, (list, tuple)):
                n += _scribble(v, depth + 1, seen)
    return n


def _take(Xb, idx):
    """Rows idx of a batch (array or frame; a frame keeps its index labels, so
    duplicated rows have duplicated labels)."""
    if hasattr(Xb, "iloc"):
        return Xb.iloc[list(idx)]
    return numpy.ascontiguousarray(Xb[idx])


def run(c, index, tier):
    ch = c.ch
    seen = set()
    spec = ch.choice("w", ROWWISE_SPECS, "spec")
    cfg = spec.draw(ch)
    if spec.name == "ConstraintKMeans":
        cfg["balanced_predictions"] = False  # the documented batch-dependent exception is never generated
    data = spec.data(ch, "A")
    cfg = spec.finalize(cfg, data)
    g = ch.subseed("r", "global-seed")
    nops = ch.integer("w", 4, 14, "nops")
    c.scenario = {"class": spec.name, "config": {k: repr(v) for k, v in cfg.items()}, "data": data.desc, "ops": []}
    c.signature = [spec.name, repr(sorted((k, repr(v)) for k, v in cfg.items() if k != "pre_seed"))[:160]]

    def env():
        c.sched_cfg = None
        c.entropy = E.Entropy("pinned")
        c.fault_plan = None
        numpy.random.seed(g % (2**32 - 1))

    est = spec.build(cfg)
    args, kw = spec.fit_args(data, cfg)
    if ch.boolean("w", 0.2, "copied-before"):
        # the same object was fitted on other data and copied once before: the
        # copies taken later are copies of the model as it is then
        Z = spec.data(ch, "Z")
        zargs, zkw = spec.fit_args(Z, cfg)
        env()
        okz, _ = U.sut(c, "fit(before)", est.fit, *zargs, **zkw)
        if okz:
            try:
                c.log.ev("op", "clone_with_fitted_parameters(before)")
                kept_copy = clone_with_fitted_parameters(est)  # noqa: F841 -- stays alive
                pickle.dumps(est)
            except (C.StepCapExceeded, C.HarnessError):
                raise
            except Exception:  # noqa: BLE001
                pass
            c.probe("copied_before_the_last_fit")
    env()
    ok, r = U.sut(c, "fit", est.fit, *args, **kw)
    if not ok:
        c.probe("fit_raised_on_generated_data:" + spec.name)
        c.probe("fit_raised_on_generated_data:%s:%s:%s" % (spec.name, type(r).__name__, U.where_raised(r)))
        return
    # batch: probe rows (some training rows, some new) + far-away rows
    Xb = data.Xp
    rs = numpy.random.RandomState(ch.subseed("w", "batch"))
    is_frame = hasattr(Xb, "iloc")
    if is_frame:
        far = None
        Xb = Xb.copy()
    else:
        far = rs.randn(ch.integer("w", 0, 4, "far"), Xb.shape[1]) * 6
        if data.kind == "nonneg":
            far = numpy.abs(far)
        Xb = numpy.ascontiguousarray(numpy.vstack([Xb, far.astype(Xb.dtype)]))  # the dtype the model was fitted on
    m_rows = Xb.shape[0]
    c.nontrivial = True

    methods = [m for m, _ in spec.observables(est, cfg) if m in spec.rowwise]
    tol = dict(spec.methods)
    ref = {}
    env()
    for m in methods:
        ok, r = _call(c, est, m, Xb)
        if not ok:
            c.probe("reference_call_raised:%s.%s" % (spec.name, m))
            continue
        if r.shape[0] != m_rows:
            _viol(c, seen, spec, "row-count", (m,), "%s returned %d rows for a batch of %d" % (m, r.shape[0], m_rows))
            continue
        ref[m] = r
    if not ref:
        return
    fragile = numpy.zeros(m_rows, dtype=bool) if is_frame else spec.fragile_rows(est, Xb)
    if fragile.any():
        c.probe("rows_at_floating_point_tie", int(fragile.sum()))
    c.log.ev("result", "ref", [(m, C.ahash(v)) for m, v in sorted(ref.items())])
    # the caller keeps what a call returned: no later call may rewrite it (an
    # output that is a view of a buffer the library reuses would also corrupt
    # the reference silently)
    ref_hash = {m: C.ahash(v) for m, v in ref.items()}

    def held_results_intact(after):
        for m_, h_ in sorted(ref_hash.items()):
            if C.ahash(ref[m_]) != h_:
                _viol(c, seen, spec, "result-overwritten", (m_,), "the array returned by %s for the full batch was modified in place by a later call (%s)" % (m_, after))
                ref_hash[m_] = C.ahash(ref[m_])
    unseen_idx = numpy.array([], dtype=int)
    if spec.name in ("PiecewiseRegressor", "PiecewiseClassifier"):
        try:
            unseen_idx = numpy.where(numpy.asarray(est.transform_bins(Xb)) == -1)[0]
            if unseen_idx.size:
                c.probe("row_in_unseen_bucket")
        except Exception:  # noqa: BLE001
            pass

    restarted = "none"
    previous = None  # the object a copy was taken from
    first_predict_done = True
    for k in range(nops):
        kinds = ["sub", "perm", "single", "dup", "repeat", "pickle", "cwfp"]
        if previous is not None:
            kinds.append("original-trained-in-place")
        if spec.has_n_jobs:
            kinds.append("n_jobs")
        if unseen_idx.size:
            kinds.append("unseen-only")
        if not is_frame:
            kinds.append("buffer-reuse")
            kinds.append("interrupted")
        op = ch.choice("w", kinds, "op")
        if len(c.scenario["ops"]) < 20:
            c.scenario["ops"].append(op)
        if op == "pickle":
            try:
                c.log.ev("op", "pickle")
                previous, est = est, pickle.loads(pickle.dumps(est))
            except (C.StepCapExceeded, C.HarnessError):
                raise
            except Exception as e:  # noqa: BLE001
                _viol(c, seen, spec, "restart-raised", ("pickle", type(e).__name__), "pickle round trip of the fitted estimator raised %s" % U.short_exc(e))
                return
            restarted = "pickle"
            c.probe("restart_pickle")
            continue
        if op == "original-trained-in-place":
            if previous is not None:
                try:
                    if _scribble(previous):
                        c.probe("original_overwritten_after_the_copy")
                except Exception:  # noqa: BLE001 -- read-only or exotic containers
                    pass
                previous = None
            continue
        if op == "cwfp":
            try:
                c.log.ev("op", "clone_with_fitted_parameters")
                previous, est = est, clone_with_fitted_parameters(est)
            except (C.StepCapExceeded, C.HarnessError):
                raise
            except Exception as e:  # noqa: BLE001
                _viol(
                    c,
                    seen,
                    spec,
                    "restart-raised",
                    ("clone_with_fitted_parameters", type(e).__name__),
                    "clone_with_fitted_parameters raised %s on the fitted estimator" % U.short_exc(e),
                )
                return
            restarted = "cwfp"
            c.probe("restart_cwfp")
            continue
        if op == "n_jobs":
            est.set_params(n_jobs=ch.choice("w", [2, 3, None], "n_jobs-val"))
            continue
        if op == "interrupted":
            # a prediction call dies half-way (an inner model raises, or the
            # caller interrupts it): the model is as good as before -- the next
            # call returns the outputs of its rows
            m = ch.choice("w", sorted(ref), "method")
            size = ch.integer("w", 1, m_rows, "int-size")
            idx = numpy.sort(rs.permutation(m_rows)[:size])
            env()
            c.fault_plan = P.FaultPlan(())
            ok, _ = _call(c, est, m, _take(Xb, idx))
            sites = list(c.fault_plan.seen)
            if not ok or not sites:
                c.fault_plan = None
                c.probe("no_fault_site_inside_predict")
                continue
            site = sites[ch.draw("f", len(sites), "site")]
            kind = ch.weighted("f", [("runtime", 3), ("value", 2), ("cancel", 1)], "fault-kind")
            env()
            c.fault_plan = P.FaultPlan([site], kind)
            ok, out = _call(c, est, m, _take(Xb, idx))
            fired = bool(c.fault_plan.fired)
            c.fault_plan = None
            if not fired:
                c.probe("fault_site_not_reached_again")
                continue
            c.probe("prediction_call_interrupted")
            if ok:
                c.probe("interrupted_call_returned_normally")
            idx2 = numpy.sort(rs.permutation(m_rows)[: ch.integer("w", 1, m_rows, "int-size2")])
            env()
            ok, out = _call(c, est, m, _take(Xb, idx2))
            rt, at = tol.get(m, R.TOL)
            if Xb.dtype == numpy.float32 and (rt, at) != R.EXACT:
                rt, at = max(rt, 1e-4), max(at, 1e-5)
            solid = ~fragile[idx2]
            if not ok:
                _viol(c, seen, spec, "call-raised", (m, "after-interrupted-call", type(out).__name__), "%s raised %s on a batch after an earlier %s call was interrupted at %r (%s)" % (m, U.short_exc(out), m, site, kind))
            elif out.shape[0] != len(idx2) or not U.arrays_equal(out[solid], ref[m][idx2][solid], rt, at):
                _viol(c, seen, spec, "row-purity", (m, "after-interrupted-call"), "%s after an earlier call was interrupted at %r (%s) does not return the outputs of its rows (rows %r, restart=%s)" % (m, site, kind, idx2.tolist()[:10], restarted))
            continue
        if op == "buffer-reuse":
            # the caller reuses one array object for successive batches: same
            # object, new content (a scoring buffer, a permutation loop)
            size = ch.integer("w", 1, m_rows, "buf-size")
            buf = numpy.empty((size,) + Xb.shape[1:], dtype=Xb.dtype)
            m = ch.choice("w", sorted(ref), "method")
            rt, at = tol.get(m, R.TOL)
            if Xb.dtype == numpy.float32 and (rt, at) != R.EXACT:
                rt, at = max(rt, 1e-4), max(at, 1e-5)
            for rnd in range(2):
                idx = rs.randint(0, m_rows, size)
                buf[...] = Xb[idx]
                env()
                ok, out = _call(c, est, m, buf)
                if not ok:
                    break
                solid = ~fragile[idx]
                if out.shape[0] != size or not U.arrays_equal(out[solid], ref[m][idx][solid], rt, at):
                    _viol(
                        c,
                        seen,
                        spec,
                        "row-purity",
                        (m, "buffer-reuse"),
                        "%s called on an array object that was used for an earlier batch and refilled in place does not return the outputs of its current rows (round %d, rows %r, restart=%s)" % (m, rnd + 1, idx.tolist()[:10], restarted),
                    )
                    break
            c.probe("buffer_reused")
            continue
        if op == "sub":
            size = ch.integer("w", 1, m_rows, "sub-size")
            idx = numpy.sort(rs.permutation(m_rows)[:size])
        elif op == "perm":
            idx = rs.permutation(m_rows)
        elif op == "single":
            idx = numpy.array([ch.draw("w", m_rows, "row")])
            if unseen_idx.size and ch.boolean("w", 0.5, "single-unseen"):
                idx = numpy.array([unseen_idx[ch.draw("w", unseen_idx.size, "unseen-row")]])
                c.probe("single_row_in_unseen_bucket")
            c.probe("single_row_batch")
        elif op == "unseen-only":
            idx = unseen_idx[: ch.integer("w", 1, unseen_idx.size, "unseen-count")]
            c.probe("batch_of_unseen_rows_only")
        elif op == "dup":
            idx = rs.randint(0, m_rows, ch.integer("w", 2, m_rows + 3, "dup-size"))
        else:
            idx = numpy.arange(m_rows)
        m = ch.choice("w", sorted(ref), "method")
        env()
        before = c.log.n_switch
        ok, out = _call(c, est, m, _take(Xb, idx))
        if c.log.n_switch > before + 2:
            c.probe("schedule_switch_inside_predict")
        if not ok:
            _viol(
                c,
                seen,
                spec,
                "call-raised",
                (m, op, "after:" + restarted, type(out).__name__),
                "%s raised %s on a %s batch (rows %r) although the full batch was accepted" % (m, U.short_exc(out), op, idx.tolist()[:10]),
            )
            continue
        want = ref[m][idx]
        solid = ~fragile[idx]
        if not solid.all():  # rows decided by a floating-point tie are not compared
            if out.shape[0] == want.shape[0]:
                out, want = out[solid], want[solid]
            idx = idx[solid]
        rt, at = tol.get(m, R.TOL)
        if not is_frame and Xb.dtype == numpy.float32 and (rt, at) != R.EXACT:
            rt, at = max(rt, 1e-4), max(at, 1e-5)  # single-precision arithmetic
        if out.shape != want.shape or not U.arrays_equal(out, want, rt, at):
            bad = None
            if out.shape == want.shape:
                for j in range(len(idx)):
                    if not U.arrays_equal(out[j], want[j], rt, at):
                        bad = (int(idx[j]), numpy.asarray(out[j]).tolist(), numpy.asarray(want[j]).tolist())
                        break
            _viol(
                c,
                seen,
                spec,
                "row-purity" if restarted == "none" else "persistence",
                (m, op if restarted == "none" else restarted),
                "%s on a %s batch (rows %r, restart=%s) differs from the full-batch output: shapes %r vs %r, first differing row %r"
                % (m, op, idx.tolist()[:12], restarted, out.shape, want.shape, bad),
            )
        c.log.ev("result", k, m, C.ahash(out))
        held_results_intact("%s on a %s batch" % (m, op))
