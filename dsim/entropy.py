"""Entropy seam: a delegating proxy for the ``numpy`` name of every mlinsights
module.  Everything is forwarded to numpy except the sampling entry points of
``numpy.random`` and the unseeded ``RandomState()`` constructor, which the
simulator decides (stream ``r``) and logs.  scikit-learn keeps the real module.
"""
import sys
import types

import numpy
import numpy.random as _real_random

from . import ctx as _ctx

_RealRandomState = _real_random.RandomState

SAMPLERS = (
    "randint",
    "rand",
    "random",
    "random_sample",
    "ranf",
    "sample",
    "permutation",
    "shuffle",
    "choice",
    "randn",
)

EPS1 = float(numpy.nextafter(1.0, 0.0))


class Entropy:
    """Per-run policy of the seam."""

    def __init__(self, mode="pinned", force_extremes=False):
        assert mode in ("pinned", "adversarial")
        self.mode = mode
        self.force_extremes = force_extremes
        self.requests = []  # (name, args, task, result) -- bounded
        self.sim_global = None
        # when set (an integer), the value standing for OS entropy is a function
        # of (task index, ordinal of the request within the task): an arbitrary
        # but schedule-independent choice, so that executions can be compared
        self.os_by_task = None
        self._os_count = {}

    def note(self, c, name, args, result):
        c.seam_calls[name] += 1
        c.seam_step()
        if len(self.requests) < 5000:
            self.requests.append((name, args, c.task_index(), result))
        c.log.ev("seam", name, args, c.task_index(), _ctx.ahash(result))


def _yield(c):
    s = c.sched
    if s is not None:
        s.yield_point(force=True)


def _active():
    c = _ctx.current()
    if c is None or c.entropy is None:
        return None
    return c


class SimRandomState(_RealRandomState):
    """A RandomState whose answers are drawn from stream ``r``: it honours the
    support the caller requested but is biased to rare-but-legal corners."""

    def __new__(cls, c, tag="sim"):
        obj = _RealRandomState.__new__(cls)
        return obj

    def __init__(self, c, tag="sim"):
        _RealRandomState.__init__(self, c.ch.subseed("r", "simrs-fallback"))
        self._c = c
        self._tag = tag

    def __reduce__(self):  # never pickled in anger; keep pickling harmless
        return (_RealRandomState, (0,))

    # ---- helpers
    def _sub(self):
        return _RealRandomState(self._c.ch.subseed("r", "sub"))

    def randint(self, low, high=None, size=None, dtype=int):
        c = self._c
        _yield(c)
        # validates arguments exactly as numpy does, gives shape and dtype
        template = _RealRandomState(0).randint(low, high, size, dtype)
        if high is None:
            lo, hi = 0, int(low)
        else:
            lo, hi = int(low), int(high)
        span = hi - lo
        scalar = not isinstance(template, numpy.ndarray)
        arr = numpy.atleast_1d(numpy.asarray(template)).copy()
        flat = arr.reshape(-1)
        total = flat.shape[0]
        ch = c.ch
        if total <= 8:
            for i in range(total):
                k = ch.draw("r", 4, "randint-elt")
                if k == 0:
                    v = lo
                elif k == 1:
                    v = hi - 1
                else:
                    v = lo + ch.draw("r", span, "randint-val")
                flat[i] = v
        else:
            style = ch.draw("r", 6, "randint-style")
            if style == 0:
                flat[:] = lo
            elif style == 1:
                flat[:] = hi - 1
            elif style == 2:
                flat[:] = self._sub().randint(lo, hi, total)
            elif style == 3:
                rs = self._sub()
                flat[:] = rs.randint(lo, hi, total)
                flat[rs.randint(0, total)] = lo
                flat[rs.randint(0, total)] = hi - 1
            elif style == 4:
                flat[:] = lo + (numpy.arange(total) % max(span, 1))
            else:
                flat[:] = numpy.where(numpy.arange(total) % 2 == 0, lo, hi - 1)
        ent = c.entropy
        if ent.force_extremes and total >= 2 and span >= 1:
            # guarantee both ends of the requested range appear
            p0 = ch.draw("r", total, "force-lo")
            p1 = (p0 + 1 + ch.draw("r", total - 1, "force-hi")) % total
            flat[p0] = lo
            flat[p1] = hi - 1
        res = arr.reshape(numpy.asarray(template).shape) if not scalar else arr[0]
        if scalar:
            res = type(template)(res) if not isinstance(template, int) else int(res)
        ent.note(c, self._tag + ".randint", (lo, hi, None if size is None else repr(size)), res)
        return res

    def _uniform(self, shape):
        c = self._c
        _yield(c)
        ch = c.ch
        total = int(numpy.prod(shape)) if shape else 1
        style = ch.draw("r", 6, "rand-style")
        if style == 0:
            a = numpy.zeros(total)
        elif style == 1:
            a = numpy.full(total, EPS1)
        elif style == 3:
            a = numpy.full(total, 0.5)
        elif style == 4:
            a = numpy.where(numpy.arange(total) % 2 == 0, 0.0, EPS1)
        else:
            a = self._sub().random_sample(total)
        if c.entropy.force_extremes and total >= 2:
            # both ends of [0, 1) appear in every request
            p0 = ch.draw("r", total, "force-lo")
            p1 = (p0 + 1 + ch.draw("r", total - 1, "force-hi")) % total
            a = numpy.array(a, dtype=float)
            a[p0] = 0.0
            a[p1] = EPS1
        return a.reshape(shape) if shape else float(a[0])

    def rand(self, *shape):
        res = self._uniform(tuple(int(s) for s in shape))
        self._c.entropy.note(self._c, self._tag + ".rand", tuple(shape), res)
        return res

    def random_sample(self, size=None):
        shape = () if size is None else (tuple(size) if hasattr(size, "__len__") else (int(size),))
        res = self._uniform(shape)
        self._c.entropy.note(self._c, self._tag + ".random_sample", shape, res)
        return res

    random = random_sample

    def _perm_index(self, n):
        ch = self._c.ch
        hook = getattr(self._c.entropy, "perm_hook", None)
        if hook is not None:
            forced = hook(n)
            if forced is not None:
                return numpy.asarray(forced, dtype=numpy.int64)
        idx = numpy.arange(n)
        if n <= 1:
            return idx
        style = ch.draw("r", 6, "perm-style")
        if style == 0:
            return idx
        if style == 1:
            return idx[::-1].copy()
        if style == 2:
            k = 1 + ch.draw("r", n - 1, "perm-rot")
            return numpy.roll(idx, k)
        if style == 5:
            i = ch.draw("r", n, "perm-swap-i")
            j = (i + 1 + ch.draw("r", n - 1, "perm-swap-j")) % n
            idx[i], idx[j] = idx[j], idx[i]
            return idx
        return self._sub().permutation(n)

    def permutation(self, x):
        c = self._c
        _yield(c)
        if isinstance(x, (int, numpy.integer)):
            arr = numpy.arange(int(x))
        else:
            arr = numpy.array(x)
        idx = self._perm_index(arr.shape[0])
        res = arr[idx]
        c.entropy.note(c, self._tag + ".permutation", (int(arr.shape[0]),), res)
        return res

    def shuffle(self, x):
        c = self._c
        _yield(c)
        n = len(x)
        idx = self._perm_index(n)
        if isinstance(x, numpy.ndarray):
            x[...] = x[idx]
        else:
            vals = [x[i] for i in idx]
            for i, v in enumerate(vals):
                x[i] = v
        c.entropy.note(c, self._tag + ".shuffle", (n,), numpy.asarray(idx))

    def choice(self, a, size=None, replace=True, p=None):
        c = self._c
        _yield(c)
        res = self._sub().choice(a, size, replace, p)
        c.entropy.note(c, self._tag + ".choice", (repr(size), replace), res)
        return res


class _LoggedRandomState(_RealRandomState):
    """Real generator seeded from stream r (model of OS entropy in pinned
    mode); its calls are yield points and are logged by name."""

    def __init__(self, c, seed):
        _RealRandomState.__init__(self, seed)
        self._c = c

    def __reduce__(self):
        return (_RealRandomState, (0,))


def _wrap_logged(name):
    real = getattr(_RealRandomState, name)

    def method(self, *args, **kwargs):
        c = self._c
        if _ctx.current() is c:
            _yield(c)
        res = real(self, *args, **kwargs)
        if _ctx.current() is c:
            c.entropy.note(c, "osrs." + name, (len(args),), res if res is not None else args[0])
        return res

    method.__name__ = name
    return method


for _n in ("randint", "rand", "random_sample", "permutation", "shuffle", "choice"):
    setattr(_LoggedRandomState, _n, _wrap_logged(_n))


def _random_state_factory(*args, **kwargs):
    seed = args[0] if args else kwargs.get("seed", None)
    c = _active()
    if c is None or seed is not None:
        return _RealRandomState(*args, **kwargs)
    # unseeded: OS entropy -> decided by the simulator
    c.probe("unseeded_RandomState")
    _yield(c)
    if c.entropy.mode == "adversarial":
        rs = SimRandomState(c, "osrs")
        c.entropy.note(c, "RandomState()", ("adversarial",), None)
        return rs
    ent = c.entropy
    if ent.os_by_task is not None:
        from .choices import derive_seed

        t = c.task_index()
        k = ent._os_count.get(t, 0)
        ent._os_count[t] = k + 1
        e = derive_seed(ent.os_by_task, t, k) % (2**31 - 1)
    else:
        e = c.ch.subseed("r", "os-entropy")
    c.entropy.note(c, "RandomState()", ("pinned",), e)
    return _LoggedRandomState(c, e)


class _RandomStateMeta(type):
    def __instancecheck__(cls, obj):
        return isinstance(obj, _RealRandomState)

    def __call__(cls, *args, **kwargs):
        return _random_state_factory(*args, **kwargs)


class RandomStateProxy(metaclass=_RandomStateMeta):
    """Stands for ``numpy.random.RandomState`` inside mlinsights modules."""


def _global_sampler(name):
    real = getattr(_real_random, name)

    def fn(*args, **kwargs):
        c = _active()
        if c is None:
            return real(*args, **kwargs)
        if c.entropy.mode == "adversarial":
            if c.entropy.sim_global is None:
                c.entropy.sim_global = SimRandomState(c, "global")
            meth = getattr(c.entropy.sim_global, name, None)
            if meth is not None and name in ("randint", "rand", "random", "random_sample", "permutation", "shuffle", "choice"):
                return meth(*args, **kwargs)
        _yield(c)
        res = real(*args, **kwargs)
        if name == "randint":
            low = args[0] if args else kwargs.get("low")
            high = args[1] if len(args) > 1 else kwargs.get("high")
            size = args[2] if len(args) > 2 else kwargs.get("size")
            if high is None:
                low, high = 0, low
            logged = (int(low), int(high), None if size is None else repr(size))
        else:
            logged = tuple(a if isinstance(a, (int, float)) else type(a).__name__ for a in args)
        c.entropy.note(
            c,
            "global." + name,
            logged,
            res if res is not None else (args[0] if args else None),
        )
        return res

    fn.__name__ = name
    fn.__dsim_proxy__ = True
    return fn


class RandomProxy(types.ModuleType):
    def __init__(self):
        types.ModuleType.__init__(self, "numpy.random")
        for n in SAMPLERS:
            if hasattr(_real_random, n):
                object.__setattr__(self, n, _global_sampler(n))
        object.__setattr__(self, "RandomState", RandomStateProxy)

    def __getattr__(self, name):
        return getattr(_real_random, name)


def _poison(arr, c):
    """Fills a freshly allocated *uninitialised* array with garbage decided by
    stream r: what ``numpy.empty`` returns is whatever the heap held, i.e. one
    more source of nondeterminism.  Code that overwrites the buffer before
    reading it is unaffected; code that reads it now does so repeatably."""
    if arr.size == 0 or arr.dtype == object:
        return arr
    c.seam_calls["numpy.empty"] += 1
    kind = arr.dtype.kind
    style = c.ch.draw("r", 4, "empty-garbage")
    flat = arr.reshape(-1)
    if kind in "iu":
        info = numpy.iinfo(arr.dtype)
        if style == 0:
            flat[:] = 0
        elif style == 1:
            flat[:] = info.max
        elif style == 2:
            flat[:] = info.min if kind == "i" else info.max // 3
        else:
            flat[:] = (numpy.arange(flat.shape[0]) * 2654435761 % 251).astype(arr.dtype)
    elif kind == "f":
        if style == 0:
            flat[:] = 0.0
        elif style == 1:
            flat[:] = numpy.nan
        elif style == 2:
            flat[:] = 1e300 if arr.dtype.itemsize >= 8 else 1e30
        else:
            flat[:] = ((numpy.arange(flat.shape[0]) * 2654435761 % 1009) / 7.0 - 50.0).astype(arr.dtype)
    elif kind == "b":
        flat[:] = (numpy.arange(flat.shape[0]) + style) % 2 == 0
    return arr


def _empty(*args, **kwargs):
    arr = numpy.empty(*args, **kwargs)
    c = _active()
    if c is not None and getattr(c.entropy, "poison_empty", True):
        _poison(arr, c)
    return arr


def _empty_like(*args, **kwargs):
    arr = numpy.empty_like(*args, **kwargs)
    c = _active()
    if c is not None and getattr(c.entropy, "poison_empty", True):
        _poison(arr, c)
    return arr


class NumpyProxy(types.ModuleType):
    def __init__(self):
        types.ModuleType.__init__(self, "numpy")
        object.__setattr__(self, "random", RandomProxy())
        object.__setattr__(self, "empty", _empty)
        object.__setattr__(self, "empty_like", _empty_like)

    def __getattr__(self, name):
        return getattr(numpy, name)


NUMPY_PROXY = NumpyProxy()
RANDOM_PROXY = NUMPY_PROXY.random


def _check_random_state_proxy(seed):
    """Stands for ``sklearn.utils.check_random_state`` inside mlinsights
    modules: ``None`` means numpy's global generator, which the simulator
    owns (adversarial mode) or has seeded (pinned mode)."""
    from sklearn.utils import check_random_state as real

    c = _active()
    if c is None or seed is not None:
        return real(seed)
    c.seam_calls["check_random_state(None)"] += 1
    if c.entropy.mode == "adversarial":
        if c.entropy.sim_global is None:
            c.entropy.sim_global = SimRandomState(c, "global")
        return c.entropy.sim_global
    return real(None)


_check_random_state_proxy.__dsim_proxy__ = True


def install_proxies():
    """Replaces numpy / numpy.random / sampler references in the globals of
    every loaded (pure python) mlinsights module."""
    from sklearn.utils import check_random_state as _sk_crs

    samplers = {}
    for n in SAMPLERS:
        if hasattr(_real_random, n):
            samplers[id(getattr(_real_random, n))] = n
    count = 0
    for name, mod in list(sys.modules.items()):
        if not (name == "mlinsights" or name.startswith("mlinsights.")):
            continue
        if mod is None or not getattr(mod, "__file__", "") or not mod.__file__.endswith(".py"):
            continue
        g = mod.__dict__
        for k, v in list(g.items()):
            if v is _sk_crs:
                g[k] = _check_random_state_proxy
                count += 1
            elif v is numpy:
                g[k] = NUMPY_PROXY
                count += 1
            elif v is _real_random:
                g[k] = RANDOM_PROXY
                count += 1
            elif v is _RealRandomState:
                g[k] = RandomStateProxy
                count += 1
            elif id(v) in samplers and getattr(v, "__self__", None) is getattr(
                _real_random.randint, "__self__", None
            ):
                g[k] = getattr(RANDOM_PROXY, samplers[id(v)])
                count += 1
    return count
