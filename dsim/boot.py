"""Imports mlinsights from the repository's working tree with every seam owned
by the simulator.

* ``sklearn.utils._joblib`` (absent from scikit-learn 1.9, imported by the
  library) is provided by the simulator: ``delayed`` is joblib's, ``Parallel``
  is :class:`dsim.sched.SimParallel`.
* compiled extensions come from the hash-keyed cache (dsim.build) through a
  ``sys.meta_path`` finder; python sources come from ``VERIF_REPO``.
* every loaded mlinsights module whose globals reference ``numpy`` /
  ``numpy.random`` / a sampling function gets a delegating proxy instead.
"""
import importlib
import importlib.abc
import importlib.machinery
import os
import sys
import types
import warnings

from . import build

_BOOTED = False
REPO = None
EXT_DIR = None

# modules that cannot be imported in this environment (see DESIGN §1)
SKIP_MODULES = (
    "mlinsights.mlbatch",
    "mlinsights.search_rank",
    "mlinsights.ext_test_case",
    "mlinsights.plotting.gallery",
)

PREIMPORT = (
    "mlinsights",
    "mlinsights.helpers",
    "mlinsights.helpers.pipeline",
    "mlinsights.helpers.parameters",
    "mlinsights.metrics",
    "mlinsights.metrics.correlations",
    "mlinsights.metrics.scoring_metrics",
    "mlinsights.sklapi",
    "mlinsights.mlmodel",
    "mlinsights.mlmodel.piecewise_tree_regression_criterion",
    "mlinsights.mlmodel.piecewise_tree_regression_criterion_fast",
    "mlinsights.mlmodel.piecewise_tree_regression_criterion_linear",
    "mlinsights.mlmodel.direct_blas_lapack",
    "mlinsights.mlmodel.sklearn_testing",
    "mlinsights.mlmodel.sklearn_transform_inv_fct",
    "mlinsights.mlmodel.target_predictors",
    "mlinsights.mlmodel.kmeans_constraint",
    "mlinsights.mlmodel._kmeans_constraint_",
    "mlinsights.mltree",
    "mlinsights.timeseries",
)


class _ExtFinder(importlib.abc.MetaPathFinder):
    """Serves mlinsights' compiled modules from the build cache."""

    def __init__(self, ext_dir):
        self.ext_dir = ext_dir
        self.index = {}
        for d in build.EXT_DIRS:
            full = os.path.join(ext_dir, d)
            if not os.path.isdir(full):
                continue
            for name in os.listdir(full):
                if name.endswith(".so"):
                    mod = d.replace("/", ".") + "." + name.split(".")[0]
                    self.index[mod] = os.path.join(full, name)

    def find_spec(self, fullname, path=None, target=None):
        p = self.index.get(fullname)
        if p is None:
            return None
        loader = importlib.machinery.ExtensionFileLoader(fullname, p)
        return importlib.machinery.ModuleSpec(fullname, loader, origin=p)


def boot(real_parallel=False):
    """Idempotent.  Returns the repo root."""
    global _BOOTED, REPO, EXT_DIR
    if _BOOTED:
        return REPO
    REPO = build.repo_root()
    EXT_DIR = build.ensure_built(REPO)
    # python sources straight from the working tree
    sys.path[:] = [p for p in sys.path if os.path.abspath(p or ".") != REPO]
    sys.path.insert(0, REPO)
    for m in list(sys.modules):
        if m == "mlinsights" or m.startswith("mlinsights."):
            raise RuntimeError("mlinsights imported before boot()")
    sys.meta_path.insert(0, _ExtFinder(EXT_DIR))

    warnings.filterwarnings("ignore")
    os.environ.setdefault("PYTHONWARNINGS", "ignore")

    import joblib
    from . import sched

    fake = types.ModuleType("sklearn.utils._joblib")
    fake.delayed = joblib.delayed
    fake.Parallel = sched.SimParallel
    fake.__dsim__ = True
    import sklearn.utils  # noqa: F401

    sys.modules["sklearn.utils._joblib"] = fake

    for name in PREIMPORT:
        importlib.import_module(name)
    import mlinsights

    got = os.path.dirname(os.path.dirname(os.path.abspath(mlinsights.__file__)))
    if got != REPO:
        raise RuntimeError("mlinsights imported from %s, expected %s" % (got, REPO))

    from . import entropy

    entropy.install_proxies()
    _BOOTED = True
    return REPO


def traced_prefixes():
    """Source files whose line events are pre-emption points."""
    return (os.path.join(REPO, "mlinsights") + os.sep,)
