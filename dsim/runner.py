"""Parent runner: fans runs out to worker interpreters, aggregates evidence,
matches violations against the known-findings file, minimises and writes replay
files.  Imports only the standard library.

Exit codes: 0 property held on everything explored (known findings printed as
KNOWN-FINDING lines); 1 at least one unlisted violation (VIOLATION lines);
2 harness error (build failure, worker crash, timeout, nondeterminism);
3 replay did not reproduce.
"""
import argparse
import hashlib
import json
import os
import queue
import subprocess
import sys
import threading
import time

ROOT = os.path.dirname(os.path.dirname(os.path.abspath(__file__)))
PY = os.environ.get("VERIF_PYTHON", "/venv/bin/python")
if not os.path.exists(PY):
    PY = sys.executable

sys.path.insert(0, ROOT)
from props import plans  # noqa: E402  (pure python)

# Exploration is time-boxed: when the main phase has used its budget (a machine
# under load), no further chunk of runs is handed out and the check reports on
# what was explored (evidence: runs < planned, "truncated_by_time_budget").  A
# batch that makes no progress for much longer is a hang: harness error.
TIME_BUDGET = {"quick": 240, "thorough": 1500}
HARD_LIMIT = {"quick": 1500, "thorough": 9000}


def log(*a):
    print(*a, flush=True)


def derive(*parts):
    h = hashlib.sha256(":".join(str(p) for p in parts).encode()).digest()
    return int.from_bytes(h[:8], "big")


def worker_env(hashseed):
    env = dict(os.environ)
    env["PYTHONHASHSEED"] = str(hashseed)
    env["OPENBLAS_NUM_THREADS"] = "1"
    env["OMP_NUM_THREADS"] = "1"
    env["MKL_NUM_THREADS"] = "1"
    env["PYTHONWARNINGS"] = "ignore"
    env["PYTHONDONTWRITEBYTECODE"] = "1"
    env["MLINSIGHTS_VERIF"] = "1"
    env.setdefault("VERIF_REPO", "/repo")
    env["PYTHONPATH"] = ROOT
    return env


def ensure_build():
    p = subprocess.run(
        [PY, "-c", "from dsim import build; print(build.ensure_built())"],
        cwd=ROOT,
        env=worker_env(0),
        stdout=subprocess.PIPE,
        stderr=subprocess.STDOUT,
        text=True,
    )
    if p.returncode != 0:
        log("HARNESS-ERROR build failed")
        log(p.stdout[-4000:])
        return None
    return p.stdout.strip().splitlines()[-1]


class Worker:
    def __init__(self, wid, hashseed):
        self.wid = wid
        self.hashseed = hashseed
        self.err_path = os.path.join(ROOT, ".cache", "worker-%d-%d.err" % (os.getpid(), wid))
        os.makedirs(os.path.dirname(self.err_path), exist_ok=True)
        self.err = open(self.err_path, "w")
        self.p = subprocess.Popen(
            [PY, "-m", "dsim.worker"],
            cwd=ROOT,
            env=worker_env(hashseed),
            stdin=subprocess.PIPE,
            stdout=subprocess.PIPE,
            stderr=self.err,
            text=True,
            bufsize=1,
        )
        self.ready = False

    def wait_ready(self):
        line = self.p.stdout.readline()
        if not line:
            raise RuntimeError("worker %d died at start: %s" % (self.wid, self.tail()))
        msg = json.loads(line)
        if "fatal" in msg:
            raise RuntimeError("worker %d fatal: %s" % (self.wid, msg["fatal"]))
        self.ready = True

    def send(self, obj):
        self.p.stdin.write(json.dumps(obj) + "\n")
        self.p.stdin.flush()

    def recv(self):
        line = self.p.stdout.readline()
        if not line:
            raise RuntimeError("worker %d died: %s" % (self.wid, self.tail()))
        return json.loads(line)

    def tail(self):
        try:
            self.err.flush()
            with open(self.err_path) as f:
                return f.read()[-3000:]
        except OSError:
            return ""

    def close(self, kill=False):
        try:
            if kill:
                self.p.kill()
            else:
                try:
                    self.send({"cmd": "exit"})
                except (OSError, ValueError):
                    pass
                try:
                    self.p.wait(10)
                except subprocess.TimeoutExpired:
                    self.p.kill()
        finally:
            try:
                self.err.close()
                os.unlink(self.err_path)
            except OSError:
                pass


class Pool:
    def __init__(self, n, hashseed):
        self.workers = [Worker(i, hashseed) for i in range(n)]
        ths = [threading.Thread(target=w.wait_ready) for w in self.workers]
        self.errors = []

        def guard(w):
            try:
                w.wait_ready()
            except Exception as e:  # noqa: BLE001
                self.errors.append(str(e))

        ths = [threading.Thread(target=guard, args=(w,)) for w in self.workers]
        for t in ths:
            t.start()
        for t in ths:
            t.join()
        if self.errors:
            self.close(kill=True)
            raise RuntimeError(self.errors[0])

    def map_runs(self, prop, tier, batch_seed, indices, sample, on_result, deadline, chunk=8, soft_deadline=None):
        self.truncated = False
        q = queue.Queue()
        idx = list(indices)
        for k in range(0, len(idx), chunk):
            q.put(idx[k : k + chunk])
        errors = []
        lock = threading.Lock()

        def serve(w):
            try:
                while True:
                    if time.time() > deadline:
                        errors.append("timeout")
                        return
                    if soft_deadline is not None and time.time() > soft_deadline:
                        if not q.empty():
                            self.truncated = True
                        return
                    try:
                        part = q.get_nowait()
                    except queue.Empty:
                        return
                    w.send(
                        {
                            "cmd": "run",
                            "prop": prop,
                            "tier": tier,
                            "batch_seed": batch_seed,
                            "indices": part,
                            "sample": [i for i in part if i in sample],
                        }
                    )
                    while True:
                        msg = w.recv()
                        if msg.get("done"):
                            break
                        with lock:
                            on_result(msg)
            except Exception as e:  # noqa: BLE001
                errors.append("worker %d: %s" % (w.wid, e))

        ths = [threading.Thread(target=serve, args=(w,), daemon=True) for w in self.workers]
        for t in ths:
            t.start()
        for t in ths:
            while t.is_alive():
                t.join(1.0)
                if time.time() > deadline + 5:
                    errors.append("timeout")
                    break
        return errors

    def close(self, kill=False):
        for w in self.workers:
            w.close(kill)


def load_findings():
    path = os.path.join(ROOT, "known_findings.json")
    if not os.path.exists(path):
        return []
    with open(path) as f:
        data = json.load(f)
    return [e for e in data.get("findings", []) if e.get("status", "open") == "open"]


def match_finding(findings, prop, signature):
    for e in findings:
        if e["property"] == prop and list(e["signature"]) == list(signature):
            return e
    return None


class Aggregate:
    def __init__(self):
        self.n = 0
        self.keys = set()
        self.sigs = set()
        self.sds = set()
        self.faults = {}
        self.probes = {}
        self.seams = {}
        self.draws = {}
        self.steps = 0
        self.switches = 0
        self.par = 0
        self.samples = []
        self.viol = []  # (result)
        self.errors = []
        self.digests = {}
        self.sig_of = {}
        self.recheck = []

    def add(self, r):
        self.n += 1
        if "error" in r:
            self.errors.append(r)
        self.digests[r["i"]] = (r["dd"], r["rd"])
        if r.get("nt"):
            key = hashlib.sha1(
                repr((r.get("sig"), r.get("sd"), sorted(r.get("faults", {}).items()))).encode()
            ).hexdigest()
            self.keys.add(key)
        if r.get("sig") is not None:
            self.sigs.add(repr(r["sig"]))
        if r.get("par"):
            self.sds.add(r["sd"])
        for name, dst in (("faults", self.faults), ("probes", self.probes), ("seams", self.seams), ("draws", self.draws)):
            for k, v in r.get(name, {}).items():
                dst[k] = dst.get(k, 0) + v
        self.steps += r.get("steps", 0)
        self.switches += r.get("switches", 0)
        self.par += r.get("par", 0)
        if r.get("scenario") and not r.get("viol") and len(self.samples) < 6:
            self.samples.append({"index": r["i"], "seed": r["seed"], "scenario": r["scenario"]})
        if r.get("viol"):
            self.viol.append(r)
        if r.get("recheck"):
            self.recheck.append(r["i"])
            self.sig_of[r["i"]] = r.get("sig")


def write_replay(prop, tier, res, signature, message, shrunk, dirname="replays"):
    os.makedirs(os.path.join(ROOT, dirname), exist_ok=True)
    name = "%s-%d-%s.json" % (prop, res["seed"], hashlib.sha1(repr(list(signature)).encode()).hexdigest()[:6])
    path = os.path.join(ROOT, dirname, name)
    final = shrunk.get("final") if shrunk and shrunk.get("ok") else None
    doc = {
        "property": prop,
        "tier": tier,
        "index": res["i"],
        "seed": res["seed"],
        "signature": signature,
        "message": message,
        "record": shrunk["record"] if shrunk and shrunk.get("ok") else res["record"],
        "minimised": bool(shrunk and shrunk.get("ok")),
        "shrink_stats": {k: shrunk.get(k) for k in ("tried", "accepted", "size_before", "size_after")} if shrunk else None,
        "decision_digest": (final or res)["dd"],
        "result_digest": (final or res)["rd"],
        "scenario": (final or res).get("scenario"),
        "trace": (final or res).get("trace"),
        "hashseed": res.get("hashseed"),
    }
    with open(path, "w") as f:
        json.dump(doc, f, indent=1, default=repr)
    return os.path.relpath(path, ROOT)


def run_check(prop, tier, batch_seed, jobs, runs=None, verbose=False):
    t0 = time.time()
    if prop not in plans.PLANS:
        log("HARNESS-ERROR unknown property %s" % prop)
        return 2
    plan = plans.PLANS[prop]
    total = runs if runs is not None else plan[tier]
    deadline = t0 + HARD_LIMIT[tier] * (4 if os.environ.get("VERIF_NO_LIMIT") else 1)
    soft = t0 + TIME_BUDGET[tier] * float(os.environ.get("VERIF_TIME_BUDGET_FACTOR", "1"))
    log("check %s tier=%s VERIF_SEED=%d runs=%d workers=%d" % (prop, tier, batch_seed, total, jobs))
    ext = ensure_build()
    if ext is None:
        return 2
    h1 = 1 + derive(batch_seed, "hash1") % 4000000000
    h2 = 1 + derive(batch_seed, "hash2") % 4000000000
    agg = Aggregate()
    n_samples = 6
    sample = set(derive(batch_seed, prop, "sample", k) % total for k in range(n_samples))
    try:
        pool = Pool(min(jobs, max(1, total)), h1)
    except RuntimeError as e:
        log("HARNESS-ERROR " + str(e)[-3000:])
        return 2
    status = 0
    soft = soft + (time.time() - t0)  # the budget starts when the workers are up
    try:
        errs = pool.map_runs(prop, tier, batch_seed, range(total), sample, agg.add, deadline, soft_deadline=soft)
        truncated = pool.truncated
        if truncated:
            log("note: time budget of %d s used up after %d of %d planned runs (machine under load?); reporting on the runs executed" % (TIME_BUDGET[tier], agg.n, total))
        if errs:
            log("HARNESS-ERROR " + "; ".join(errs)[-3000:])
            pool.close(kill=True)
            return 2
        if agg.errors:
            e = agg.errors[0]
            log("HARNESS-ERROR exception in harness code, run index=%d seed=%d" % (e["i"], e["seed"]))
            log(e["error"][-3000:])
            pool.close(kill=True)
            return 2
        wall_main = time.time() - t0

        # ---- determinism self-test (+ cross-hash-seed re-execution) ----
        n_det = plans.DETERMINISM_SAMPLE[tier]
        det_idx = sorted(set(derive(batch_seed, prop, "det", k) % total for k in range(n_det)) | set(agg.recheck))
        det_idx = [i for i in det_idx if i in agg.digests]  # executed in the main phase
        agg2 = Aggregate()
        pool2 = None
        nondet = []
        hash_viol = []
        if det_idx:
            try:
                pool2 = Pool(max(1, min(jobs // 2 or 1, len(det_idx))), h2)
                errs = pool2.map_runs(prop, tier, batch_seed, det_idx, set(), agg2.add, deadline, chunk=4, soft_deadline=time.time() + TIME_BUDGET[tier] / 2)
            except RuntimeError as e:
                errs = [str(e)]
            if errs:
                log("HARNESS-ERROR (determinism phase) " + "; ".join(errs)[-3000:])
                return 2
            for i in det_idx:
                a, b = agg.digests.get(i), agg2.digests.get(i)
                if a is None or b is None:
                    continue
                if a[0] != b[0]:
                    nondet.append((i, "decision"))
                elif a[1] != b[1]:
                    if i in agg.recheck:
                        hash_viol.append(i)
                    else:
                        nondet.append((i, "result"))
        if nondet:
            for i, what in nondet[:10]:
                log(
                    "NONDETERMINISM property=%s index=%d %s digest differs between two executions "
                    "(PYTHONHASHSEED %d vs %d)%s"
                    % (prop, i, what, h1, h2, "; the library depends on something the simulator did not decide (see C03)" if what == "result" else "")
                )
            if not agg.viol:
                log("HARNESS-ERROR determinism self-test failed for %d of %d re-executed runs" % (len(nondet), len(det_idx)))
                return 2
            # violations were found as well: they are reported (each replay file
            # is executed in a fresh process and must reproduce on its own);
            # runs whose outcome depends on what ran before them in the same
            # process point at state the library keeps outside its instances
            log("note: %d of %d re-executed runs differ between two processes; the violations below are reported on their own replays" % (len(nondet), len(det_idx)))

        # ---- violations ----
        findings = load_findings()
        by_sig = {}
        for r in agg.viol:
            for v in r["viol"]:
                by_sig.setdefault(tuple(v["signature"]), []).append((r, v))
        # hash-order dependence (C03 O2): decision digests equal, results differ
        for i in hash_viol:
            cls = (agg.sig_of.get(i) or ["?"])[0]
            sig = ("C03", "hash-order", str(cls), "result differs under another PYTHONHASHSEED")
            r = {"i": i, "seed": derive(batch_seed, prop, i), "dd": agg.digests[i][0], "rd": agg.digests[i][1], "record": None, "hashseed": [h1, h2]}
            by_sig.setdefault(sig, []).append((r, {"signature": list(sig), "message": "result digests %s vs %s under PYTHONHASHSEED %d vs %d" % (agg.digests[i][1], agg2.digests[i][1], h1, h2), "property": prop, "oracle": "hash-order"}))
        n_unlisted = 0
        n_known = 0
        shrunk_budget = int(os.environ.get('VERIF_SHRINK_MAX', '4'))
        for sig, items in sorted(by_sig.items()):
            entry = match_finding(findings, prop, sig)
            if entry is not None:
                n_known += 1
                log("KNOWN-FINDING: property=%s %s [%d runs; replay %s]" % (prop, entry["what"], len(items), entry.get("replay")))
                continue
            n_unlisted += 1
            # smallest record first
            items.sort(key=lambda rv: (sum(len(x) for x in (rv[0].get("record") or {}).values()), rv[0]["i"]))
            r, v = items[0]
            shrunk = None
            if shrunk_budget > 0 and r.get("record") is not None:
                shrunk_budget -= 1
                try:
                    w = pool.workers[0]
                    w.send({"cmd": "shrink", "prop": prop, "tier": tier, "index": r["i"], "seed": r["seed"], "record": r["record"], "signature": list(sig), "budget": 300, "seconds": 60})
                    shrunk = w.recv()
                except Exception as e:  # noqa: BLE001
                    log("note: minimisation failed (%s); writing unminimised replay" % e)
                    shrunk = None
            if r.get("record") is None:
                r = dict(r)
                r["record"] = {}
            path = write_replay(prop, tier, r, list(sig), v["message"], shrunk)
            log("VIOLATION property=%s replay=%s" % (prop, path))
            log("  signature: %s" % (list(sig),))
            log("  %s" % v["message"][:600].replace("\n", "\n  "))
            log("  seen in %d run(s); first index=%d seed=%d" % (len(items), r["i"], r["seed"]))
        if n_unlisted:
            status = 1
        wall = time.time() - t0
        write_evidence(prop, tier, batch_seed, agg, agg2, wall, wall_main, total, jobs, n_unlisted, n_known, det_idx, h1, h2)
        log(
            "%s %s: runs=%d distinct_nontrivial=%d interleavings=%d violations(unlisted)=%d known=%d wall=%.1fs"
            % (prop, tier, agg.n, len(agg.keys), len(agg.sds), n_unlisted, n_known, wall)
        )
        if pool2 is not None:
            pool2.close()
        return status
    finally:
        pool.close()


def write_evidence(prop, tier, seed, agg, agg2, wall, wall_main, total, jobs, n_unlisted, n_known, det_idx, h1, h2):
    meta = plans.META[prop]
    per_hour = int(agg.n / max(wall_main, 1e-6) * 3600)
    cov = {
        "evaluations": agg.n,
        "runs_planned": total,
        "truncated_by_time_budget": agg.n < total,
        "distinct_nontrivial": len(agg.keys),
        "rule": meta["rule"],
        "samples": agg.samples[:6],
        "exhaustive": False,
        "runs_per_hour": per_hour,
        "seeds_per_hour": per_hour,
        "workers": jobs,
        "simulated_time": "none -- no anchored code path reads a clock; scheduler steps are reported instead",
        "scheduler_steps": agg.steps,
        "scheduler_switches": agg.switches,
        "simparallel_calls_threaded": agg.par,
        "distinct_interleavings": len(agg.sds),
        "distinct_interleavings_measure": "distinct sha256 digests of the sequence of baton hand-overs (thread, source line, thread) among runs with a threaded SimParallel call",
        "distinct_scenario_signatures": len(agg.sigs),
        "faults_fired": agg.faults,
        "seam_calls": agg.seams,
        "choice_draws": agg.draws,
        "probes": agg.probes,
        "probes_at_zero": [p for p in meta.get("probes", []) if not agg.probes.get(p)],
        "components": meta["components"],
        "determinism_selftest": {
            "reexecuted_runs": len(det_idx),
            "mismatches": 0,
            "pythonhashseed_main": h1,
            "pythonhashseed_recheck": h2,
            "compared": "decision digest (choices, switches, seam requests, fault sites) and result digest (SUT outputs)",
        },
        "known_findings_seen": n_known,
    }
    doc = {
        "property_id": prop,
        "tier": tier,
        "seed": int(seed),
        "level": meta["level"],
        "coverage": cov,
        "assumptions": meta["assumptions"],
        "wall_s": round(wall, 2),
        "violations": n_unlisted,
    }
    os.makedirs(os.path.join(ROOT, "evidence"), exist_ok=True)
    path = os.path.join(ROOT, "evidence", "%s.json" % prop)
    tmp = path + ".tmp"
    with open(tmp, "w") as f:
        json.dump(doc, f, indent=1, sort_keys=True, default=repr)
    os.replace(tmp, path)


def run_replay(prop, path):
    with open(path if os.path.isabs(path) else os.path.join(ROOT, path)) as f:
        doc = json.load(f)
    if ensure_build() is None:
        return 2
    hs = doc.get("hashseed")
    sig = list(doc["signature"])
    if isinstance(hs, list):  # cross-hash-seed violation: run both, compare
        rds = []
        for h in hs:
            w = Worker(0, h)
            try:
                w.wait_ready()
                w.send({"cmd": "replay", "prop": prop, "tier": doc["tier"], "index": doc["index"], "seed": doc["seed"], "record": doc.get("record") or None})
                res = w.recv()
            finally:
                w.close()
            rds.append((res["dd"], res["rd"]))
        if rds[0][0] == rds[1][0] and rds[0][1] != rds[1][1]:
            log("VIOLATION property=%s replay=%s" % (prop, path))
            log("  signature: %s" % sig)
            return 1
        log("REPLAY-DIVERGED property=%s replay=%s digests=%s" % (prop, path, rds))
        return 3
    w = Worker(0, doc.get("hashseed") or 1)
    try:
        w.wait_ready()
        w.send({"cmd": "replay", "prop": prop, "tier": doc["tier"], "index": doc["index"], "seed": doc["seed"], "record": doc["record"]})
        res = w.recv()
    finally:
        w.close()
    if "error" in res:
        log("HARNESS-ERROR during replay\n" + res["error"][-3000:])
        return 2
    for v in res.get("viol", ()):
        if v["signature"] == sig:
            same = res["dd"] == doc.get("decision_digest")
            log("VIOLATION property=%s replay=%s" % (prop, path))
            log("  signature: %s" % sig)
            log("  %s" % v["message"][:1500].replace("\n", "\n  "))
            log("  decision digest %s (%s)" % (res["dd"], "identical to the recorded one" if same else "recorded %s" % doc.get("decision_digest")))
            if os.environ.get("VERIF_TRACE"):
                for e in res.get("trace", [])[:400]:
                    log("   ", e)
            return 1 if same or not doc.get("decision_digest") else 3
    log("REPLAY-DIVERGED property=%s replay=%s: the recorded violation did not reproduce (got %s)" % (prop, path, [v["signature"] for v in res.get("viol", ())]))
    return 3


def main(argv=None):
    ap = argparse.ArgumentParser(prog="check")
    ap.add_argument("prop")
    ap.add_argument("extra", nargs="*")
    ap.add_argument("--tier", default=os.environ.get("VERIF_TIER", "quick"), choices=["quick", "thorough"])
    ap.add_argument("--replay")
    ap.add_argument("--jobs", type=int, default=int(os.environ.get("VERIF_JOBS", "0")) or min(16, os.cpu_count() or 4))
    ap.add_argument("--runs", type=int)
    ap.add_argument("--seed", type=int)
    args = ap.parse_intermixed_args(argv)
    seed = args.seed
    if seed is None:
        try:
            seed = int(os.environ.get("VERIF_SEED", "0"))
        except ValueError:
            seed = derive(os.environ.get("VERIF_SEED")) % (2**31)
    if args.prop == "build":
        return 0 if ensure_build() else 2
    if args.prop.startswith("selftest"):
        from selftest import main as st

        return st.main(args.prop, seed, args.jobs, args.tier)
    if args.replay:
        return run_replay(args.prop, args.replay)
    return run_check(args.prop, args.tier, seed, args.jobs, args.runs)


if __name__ == "__main__":
    sys.exit(main())
