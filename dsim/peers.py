"""Peer estimators: fault-plan-driven, recording subclasses of real scikit-learn
estimators, plus small "Tag" estimators whose output identifies the fitted
instance that produced it.

They keep the parent's constructor (clone / get_params / isinstance behave as
for the parent) and every overridden method keeps the parent's *signature*
(``functools.wraps``): ClassifierAfterKMeans, PredictableTSNE and
TransferTransformer branch on ``inspect.signature(est.fit)``.
"""
import functools
import hashlib
import sys

import numpy
from sklearn.base import BaseEstimator, ClassifierMixin, RegressorMixin

from . import ctx as _ctx
from . import sched as _sched

_sched.register_traced_file(__file__)

METHODS = (
    "fit",
    "fit_transform",
    "fit_predict",
    "transform",
    "predict",
    "predict_proba",
    "decision_function",
)


class InjectedFault(RuntimeError):
    """Failure injected by the simulator at a fault site."""


class InjectedValueFault(InjectedFault, ValueError):
    """Same, but also a ValueError: what input validation of a real estimator
    raises (code that handles ValueError specially takes that path)."""


class InjectedCancel(BaseException):
    """An interruption (KeyboardInterrupt-like): not an Exception, so only
    try/finally protects against it, ``except Exception`` does not."""


FAULT_KINDS = {"runtime": InjectedFault, "value": InjectedValueFault, "cancel": InjectedCancel}


class FaultPlan:
    """Maps site names to actions.  A site is named
    ``(task index, peer class, method, ordinal of that call within the task)``
    so that the same site is the same site under every schedule."""

    def __init__(self, fire=(), kind="runtime"):
        self.kind = kind
        self.fire = set(tuple(f) for f in fire)
        self.counters = {}
        self.seen = []
        self.fired = []

    def reached(self, c, cls_name, method):
        task = c.task_index()
        key = (task, cls_name, method)
        k = self.counters.get(key, 0)
        self.counters[key] = k + 1
        name = (task, cls_name, method, k)
        self.seen.append(name)
        c.log.ev("site", name)
        s = c.sched
        if s is not None:
            s.yield_point(force=True, where="site")
        if name in self.fire:
            self.fired.append(name)
            c.faults_fired["peer_raise:" + method] += 1
            c.faults_fired["kind:" + self.kind] += 1
            if s is not None and s.inflight >= 2:
                c.probe("fault_while_other_task_in_flight")
            c.log.ev("fault", name)
            raise FAULT_KINDS[self.kind]("injected fault at %r" % (name,))


def _site(self, method):
    c = _ctx.current()
    if c is None or c.fault_plan is None:
        return
    c.fault_plan.reached(c, type(self).__name__, method)


def _copy(a):
    if a is None:
        return None
    if hasattr(a, "toarray"):
        return a.copy()
    if hasattr(a, "values") and hasattr(a, "columns"):
        return a.copy()
    return numpy.array(a, copy=True)


def _make_method(parent, name):
    orig = getattr(parent, name)

    if name == "fit":

        @functools.wraps(orig)
        def method(self, *args, **kwargs):
            _site(self, name)
            res = orig(self, *args, **kwargs)
            _record_fit(self, orig, args, kwargs)
            return res

    else:

        @functools.wraps(orig)
        def method(self, *args, **kwargs):
            _site(self, name)
            return orig(self, *args, **kwargs)

    return method


def _record_fit(self, orig, args, kwargs):
    X = args[0] if args else kwargs.get("X")
    y = args[1] if len(args) > 1 else kwargs.get("y")
    w = args[2] if len(args) > 2 else kwargs.get("sample_weight")
    self.rec_X_ = _copy(X)
    self.rec_y_ = _copy(y)
    self.rec_w_ = _copy(w)
    self.rec_kwargs_ = sorted(k for k in kwargs if k not in ("X", "y", "sample_weight"))
    self.rec_n_fit_ = getattr(self, "rec_n_fit_", 0) + 1


_PEERS = {}


def make_peer(parent):
    """Returns the peer class derived from the scikit-learn class *parent*."""
    if parent in _PEERS:
        return _PEERS[parent]
    name = "Peer" + parent.__name__
    ns = {"__module__": __name__, "__qualname__": name, "__doc__": parent.__doc__}
    for m in METHODS:
        if hasattr(parent, m) and callable(getattr(parent, m, None)):
            try:
                ns[m] = _make_method(parent, m)
            except AttributeError:
                pass
    cls = type(name, (parent,), ns)
    setattr(sys.modules[__name__], name, cls)
    _PEERS[parent] = cls
    return cls


def is_peer(obj):
    return type(obj).__name__.startswith(("Peer", "Tag"))


# ---------------------------------------------------------------------------
# Tag estimators


def _tag_of(X, y, w):
    h = hashlib.sha1()
    for a in (X, y, w):
        if a is None:
            h.update(b"N")
        else:
            a = numpy.asarray(a)
            h.update(str(a.shape).encode())
            if a.dtype == object:
                h.update(repr(a.tolist()).encode())
            else:
                h.update(numpy.ascontiguousarray(a).tobytes())
    return int.from_bytes(h.digest()[:4], "big")


class TagRegressor(RegressorMixin, BaseEstimator):
    """Predicts a constant that identifies the training set it was fitted on."""

    def __init__(self, scale=1.0):
        self.scale = scale

    def fit(self, X, y, sample_weight=None):
        _site(self, "fit")
        _record_fit(self, None, (X, y, sample_weight), {})
        self.tag_ = _tag_of(X, y, sample_weight)
        self.value_ = self.scale * (self.tag_ % 1000003) / 7.0
        self.n_features_in_ = numpy.asarray(X).shape[1]
        return self

    def predict(self, X):
        _site(self, "predict")
        return numpy.full((numpy.asarray(X).shape[0],), self.value_)


class TagClassifier(ClassifierMixin, BaseEstimator):
    """Probabilities identify the training set; labels come from classes_."""

    def __init__(self, scale=1.0):
        self.scale = scale

    def fit(self, X, y, sample_weight=None):
        _site(self, "fit")
        _record_fit(self, None, (X, y, sample_weight), {})
        self.tag_ = _tag_of(X, y, sample_weight)
        self.classes_ = numpy.unique(numpy.asarray(y))
        k = len(self.classes_)
        rs = numpy.random.RandomState(self.tag_ % (2**31 - 1))
        p = rs.rand(k) + 0.05
        self.proba_ = p / p.sum()
        self.n_features_in_ = numpy.asarray(X).shape[1]
        return self

    def predict_proba(self, X):
        _site(self, "predict_proba")
        return numpy.tile(self.proba_, (numpy.asarray(X).shape[0], 1))

    def decision_function(self, X):
        _site(self, "decision_function")
        d = numpy.log(self.proba_)
        n = numpy.asarray(X).shape[0]
        if len(self.classes_) == 2:
            return numpy.full((n,), d[1] - d[0])
        return numpy.tile(d, (n, 1))

    def predict(self, X):
        _site(self, "predict")
        lab = self.classes_[int(numpy.argmax(self.proba_))]
        return numpy.array([lab] * numpy.asarray(X).shape[0])
