"""Greedy delta debugging over the four recorded choice streams.

A candidate record is accepted when re-executing it yields a violation with the
same signature ("the same violation class persists").
"""
import time

from .choices import STREAMS


def _same(res, signature):
    for v in res.get("viol", ()):
        if v["signature"] == signature:
            return True
    return False


def _size(rec):
    return (sum(len(rec[s]) for s in STREAMS), sum(sum(rec[s]) for s in STREAMS))


def minimise(mod, prop, req):
    from .worker import execute

    signature = req["signature"]
    tier = req["tier"]
    index = req["index"]
    seed = req["seed"]
    budget = int(req.get("budget", 300))
    tmax = float(req.get("seconds", 60))
    t0 = time.time()
    best = {s: list(req["record"].get(s, [])) for s in STREAMS}
    tried = 0
    accepted = 0

    def attempt(cand):
        nonlocal tried, best, accepted
        if tried >= budget or time.time() - t0 > tmax:
            return False
        tried += 1
        res = execute(mod, prop, tier, 0, index, record=cand, seed=seed)
        if "error" in res:
            return False
        if _same(res, signature):
            # keep what was actually consumed (drops unused tail)
            new = {s: list(res["record"][s]) for s in STREAMS}
            if _size(new) <= _size(cand):
                cand = new
            if _size(cand) < _size(best):
                best = cand
                accepted += 1
                return True
        return False

    # normalise first: the consumed record of the original
    attempt(best)

    improved = True
    while improved and tried < budget and time.time() - t0 <= tmax:
        improved = False
        for s in ("s", "f", "r", "w"):
            # 1. truncate / drop blocks
            n = len(best[s])
            block = max(n // 2, 1)
            while block >= 1 and n > 0:
                i = 0
                while i < len(best[s]):
                    cand = {k: list(v) for k, v in best.items()}
                    del cand[s][i : i + block]
                    if attempt(cand):
                        improved = True
                    else:
                        i += block
                    if tried >= budget:
                        break
                if block == 1:
                    break
                block //= 2
            # 2. zero / halve single entries
            for i in range(len(best[s])):
                if i >= len(best[s]):
                    break
                v = best[s][i]
                if v == 0:
                    continue
                for nv in (0, v // 2, v - 1):
                    if nv == v or nv < 0:
                        continue
                    cand = {k: list(x) for k, x in best.items()}
                    cand[s][i] = nv
                    if attempt(cand):
                        improved = True
                        break
                if tried >= budget:
                    break
    final = execute(mod, prop, tier, 0, index, record=best, trace=True, seed=seed)
    ok = _same(final, signature)
    return {
        "shrunk": True,
        "ok": ok,
        "tried": tried,
        "accepted": accepted,
        "record": best if ok else req["record"],
        "final": final if ok else None,
        "size_before": _size({s: list(req["record"].get(s, [])) for s in STREAMS}),
        "size_after": _size(best),
    }
