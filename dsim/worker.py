"""Worker interpreter: executes runs on request (JSON lines over stdin/stdout).

One run = one :class:`dsim.ctx.Ctx` = one seed.  The worker prints exactly one
JSON line per request item on its *real* stdout (fd saved at start; the
library's prints go to /dev/null).
"""
import faulthandler
import importlib
import json
import os
import sys
import traceback

RUN_TIMEOUT = int(os.environ.get("VERIF_RUN_TIMEOUT", "300"))


def _setup_io():
    out = os.fdopen(os.dup(1), "w", buffering=1)
    devnull = open(os.devnull, "w")
    os.dup2(devnull.fileno(), 1)
    sys.stdout = devnull
    return out


def run_seed(batch_seed, prop, index):
    from .choices import derive_seed

    return derive_seed(batch_seed, prop, index)


def execute(mod, prop, tier, batch_seed, index, record=None, trace=False, seed=None):
    """Executes one run; returns the result dict."""
    import numpy
    from . import ctx as C

    if seed is None:
        seed = run_seed(batch_seed, prop, index)
    import gc

    # the cyclic collector runs only here, between runs: a collection inside a
    # run could finalise objects (generators, estimators) inside a traced
    # thread and perturb the schedule
    gc.enable()
    gc.collect()
    gc.disable()
    c = C.Ctx(seed, record)
    c.index = index
    c.tier = tier
    C.set_current(c)
    err = None
    faulthandler.dump_traceback_later(RUN_TIMEOUT, exit=True)
    try:
        mod.run(c, index, tier)
    except Exception:  # noqa: BLE001 -- harness defect, reported as exit 2
        err = traceback.format_exc()
    finally:
        faulthandler.cancel_dump_traceback_later()
        C.set_current(None)
        sys.settrace(None)
        numpy.seterr(all="warn")
    res = {
        "i": index,
        "seed": seed,
        "dd": c.log.decision_digest(),
        "rd": c.log.result_digest(),
        "sd": c.log.schedule_digest(),
        "sig": c.signature,
        "nt": bool(c.nontrivial),
        "faults": dict(c.faults_fired),
        "probes": dict(c.probes),
        "seams": dict(c.seam_calls),
        "steps": c.steps,
        "switches": c.log.n_switch,
        "draws": dict(c.ch.count),
        "par": c.parallel_calls,
        "viol": [v.to_json() for v in c.violations],
        "recheck": getattr(c, "recheck", None),
    }
    if err is not None:
        res["error"] = err
    if c.violations or err is not None or trace:
        res["record"] = c.ch.record()
    if trace or c.violations:
        res["scenario"] = c.scenario
        res["trace"] = [list(map(_j, e)) for e in c.log.events[: (max(4000, c.log.keep) if trace else 400)]]
    elif getattr(c, "want_sample", False):
        res["scenario"] = c.scenario
    return res


def _j(x):
    if isinstance(x, (int, float, str, bool)) or x is None:
        return x
    if isinstance(x, (tuple, list)):
        return [_j(y) for y in x]
    return repr(x)


def main():
    out = _setup_io()
    faulthandler.enable(file=sys.stderr)
    sys.path.insert(0, os.path.dirname(os.path.dirname(os.path.abspath(__file__))))
    try:
        from . import boot

        boot.boot()
        from . import sched

        sched.warm_opcode_tracing()
    except Exception:  # noqa: BLE001
        out.write(json.dumps({"fatal": traceback.format_exc()}) + "\n")
        return 2
    out.write(json.dumps({"ready": True, "hashseed": os.environ.get("PYTHONHASHSEED")}) + "\n")
    mods = {}
    for line in sys.stdin:
        line = line.strip()
        if not line:
            continue
        req = json.loads(line)
        cmd = req.get("cmd")
        if cmd == "exit":
            break
        prop = req["prop"]
        if prop not in mods:
            mods[prop] = importlib.import_module("props." + prop.lower())
        mod = mods[prop]
        if cmd == "run":
            sample = set(req.get("sample", ()))
            for i in req["indices"]:
                mod_want = i in sample
                res = _exec_with_sample(mod, prop, req, i, mod_want)
                out.write(json.dumps(res, default=repr) + "\n")
            out.write(json.dumps({"done": True}) + "\n")
        elif cmd == "replay":
            res = execute(
                mod,
                prop,
                req["tier"],
                req.get("batch_seed", 0),
                req["index"],
                record=req.get("record"),
                trace=True,
                seed=req.get("seed"),
            )
            out.write(json.dumps(res, default=repr) + "\n")
        elif cmd == "shrink":
            from . import shrink

            res = shrink.minimise(mod, prop, req)
            out.write(json.dumps(res, default=repr) + "\n")
        else:
            out.write(json.dumps({"fatal": "unknown command %r" % cmd}) + "\n")
    return 0


def _exec_with_sample(mod, prop, req, i, want):
    from . import ctx as C

    if not want:
        return execute(mod, prop, req["tier"], req["batch_seed"], i)
    # samples carry the scenario description
    orig = C.Ctx.__init__

    def patched(self, *a, **k):
        orig(self, *a, **k)
        self.want_sample = True

    C.Ctx.__init__ = patched
    try:
        return execute(mod, prop, req["tier"], req["batch_seed"], i)
    finally:
        C.Ctx.__init__ = orig


if __name__ == "__main__":
    sys.exit(main())
