"""Per-run simulation context: choices, event log, statistics, fault plan.

Exactly one context is current per worker interpreter at a time (one run at a
time per process); seams reach it through :func:`current`.
"""
import hashlib
import threading
from collections import Counter

import numpy

from .choices import Choices

_CURRENT = None


def current():
    return _CURRENT


def set_current(ctx):
    global _CURRENT
    _CURRENT = ctx


class StepCapExceeded(Exception):
    """Raised inside the simulated code when a run exceeds its step cap."""


class HarnessError(Exception):
    """A defect of the harness itself (never reported as a VIOLATION)."""


def ahash(a):
    """Short stable hash of an array-like / scalar / nested structure."""
    h = hashlib.sha1()
    _feed(h, a)
    return h.hexdigest()[:12]


def _feed(h, a):
    if a is None:
        h.update(b"N")
    elif isinstance(a, numpy.ndarray):
        if a.dtype == object:
            h.update(b"O" + repr(a.shape).encode())
            for x in a.ravel().tolist():
                _feed(h, x)
        else:
            h.update(str(a.dtype).encode() + repr(a.shape).encode())
            h.update(numpy.ascontiguousarray(a).tobytes())
    elif isinstance(a, (list, tuple)):
        h.update(b"L%d" % len(a))
        for x in a:
            _feed(h, x)
    elif isinstance(a, dict):
        h.update(b"D%d" % len(a))
        for k in sorted(a, key=repr):
            h.update(repr(k).encode())
            _feed(h, a[k])
    elif hasattr(a, "values") and hasattr(a, "columns"):
        h.update(b"F" + repr(list(a.columns)).encode())
        _feed(h, numpy.asarray(a.values))
    elif hasattr(a, "toarray"):
        _feed(h, a.toarray())
    elif isinstance(a, (numpy.generic,)):
        h.update(repr(a.item()).encode())
    else:
        h.update(repr(a).encode())


DECISION_KINDS = frozenset(["choice", "switch", "seam", "site", "fault", "op", "task"])


class EventLog:
    """Append-only log of a run.  Logging never draws and never reads a clock."""

    def __init__(self, keep=int(__import__("os").environ.get("VERIF_TRACE_KEEP", "4000"))):
        self.events = []
        self.keep = keep
        self._dec = hashlib.sha256()
        self._res = hashlib.sha256()
        self._sch = hashlib.sha256()
        self.n = 0
        self.n_switch = 0

    def ev(self, kind, *fields):
        self.n += 1
        line = (kind,) + fields
        data = repr(line).encode()
        if kind in DECISION_KINDS:
            self._dec.update(data)
        if kind == "result":
            self._res.update(data)
        if kind == "switch":
            self._sch.update(data)
            self.n_switch += 1
        if len(self.events) < self.keep:
            self.events.append(line)

    def decision_digest(self):
        return self._dec.hexdigest()[:16]

    def result_digest(self):
        return self._res.hexdigest()[:16]

    def schedule_digest(self):
        return self._sch.hexdigest()[:16]


class Violation:
    def __init__(self, prop, oracle, signature, message):
        self.prop = prop
        self.oracle = oracle
        self.signature = [str(s) for s in signature]
        self.message = message

    def to_json(self):
        return {
            "property": self.prop,
            "oracle": self.oracle,
            "signature": self.signature,
            "message": self.message[:2000],
        }


class Ctx:
    def __init__(self, seed, record=None, step_cap=400000, seam_cap=20000):
        self.seed = seed
        self.ch = Choices(seed, record)
        self.log = EventLog()
        self.ch.listener = self._on_choice
        self.probes = Counter()
        self.faults_fired = Counter()
        self.seam_calls = Counter()
        self.violations = []
        self.step_cap = step_cap
        self.seam_cap = seam_cap
        self.steps = 0
        self.seam_n = 0
        self.sched = None  # active Scheduler while a SimParallel call runs
        self.sched_cfg = None  # drawn lazily by SimParallel
        self.fault_plan = None
        self.entropy = None
        self.tls = threading.local()
        self.scenario = {}  # human-readable description of the run
        self.signature = None  # scenario signature (for distinct counting)
        self.nontrivial = False
        self.parallel_calls = 0
        self.real_parallel = False
        self.log.ev("seed", seed)

    # choices are logged by count only (values are in the record)
    def _on_choice(self, stream, n, value, label):
        self.log.ev("choice", stream, n, value)

    def task_index(self):
        return getattr(self.tls, "task", -1)

    def probe(self, name, k=1):
        self.probes[name] += k

    def violation(self, prop, oracle, signature, message):
        v = Violation(prop, oracle, signature, message)
        self.violations.append(v)
        self.log.ev("violation", prop, oracle, tuple(v.signature))
        return v

    def step(self):
        self.steps += 1
        if self.steps > self.step_cap:
            raise StepCapExceeded("step cap %d exceeded" % self.step_cap)

    def seam_step(self):
        self.seam_n += 1
        if self.seam_n > self.seam_cap:
            raise StepCapExceeded("seam-call cap %d exceeded" % self.seam_cap)
