"""Thread seam: ``SimParallel`` stands for ``joblib.Parallel`` and runs the tasks
on real threads of which exactly one holds the baton; a seeded scheduler
(stream ``s``) decides every hand-over.

Pre-emption points: task start, line (or bytecode) events of frames whose
source file lies under the repository (and the harness' peer estimators), and
explicit seam calls (entropy draws, fault sites).
"""
import os
import pickle
import sys
import threading

from . import ctx as _ctx

MODES = ("rtc", "rare", "frequent", "pct")
GRANS = ("task", "line", "opcode")

_PEER_FILES = set()


def register_traced_file(path):
    _PEER_FILES.add(os.path.abspath(path))


class SchedConfig:
    def __init__(self, mode, gran, pct_depth=0, wide=None, backend="threads"):
        self.mode = mode
        self.gran = gran
        self.pct_depth = pct_depth
        self.wide = wide  # pool size used for n_jobs=-1
        # "processes": the user selected a process-based joblib backend
        # (prefer="threads" is only a hint): every task works on pickled copies
        # of its arguments and its result is pickled back -- nothing is shared
        self.backend = backend

    def describe(self):
        return {"mode": self.mode, "gran": self.gran, "pct_depth": self.pct_depth, "wide": self.wide, "backend": self.backend}


def draw_config(c):
    ch = c.ch
    mode = ch.weighted("s", [("rtc", 5), ("rare", 3), ("frequent", 3), ("pct", 2)], "mode")
    if mode == "rtc":
        gran = "task"
    else:
        gran = ch.weighted("s", [("line", 5), ("opcode", 2)], "gran")
    depth = 1 + ch.draw("s", 3, "pct-depth") if mode == "pct" else 0
    wide = 2 + ch.draw("s", 3, "wide")
    backend = ch.weighted("s", [("threads", 5), ("processes", 1)], "backend")
    return SchedConfig(mode, gran, depth, wide, backend)


def _process_copy_of_callable(func):
    """What a process backend does to the callable itself (loky ships it with
    cloudpickle): a nested function arrives with *copies* of the objects its
    closure captured, a bound method with a copy of its instance.  The globals
    (the entropy seam among them) stay those of this process."""
    import types

    try:
        if isinstance(func, types.MethodType):
            return types.MethodType(func.__func__, pickle.loads(pickle.dumps(func.__self__)))
        if isinstance(func, types.FunctionType) and func.__closure__:
            cells = []
            for cell in func.__closure__:
                try:
                    cells.append(types.CellType(pickle.loads(pickle.dumps(cell.cell_contents))))
                except ValueError:  # empty cell
                    cells.append(cell)
            new = types.FunctionType(func.__code__, func.__globals__, func.__name__, func.__defaults__, tuple(cells))
            new.__kwdefaults__ = func.__kwdefaults__
            return new
    except Exception:  # noqa: BLE001 -- not picklable: the callable is shared as it is
        return func
    return func


class _Worker:
    __slots__ = ("idx", "thread", "event", "state", "task", "prio")

    def __init__(self, idx):
        self.idx = idx
        self.thread = None
        self.event = threading.Event()
        self.state = "idle"  # idle | running | done
        self.task = None
        self.prio = 0


class Scheduler:
    def __init__(self, c, cfg, n_workers, iterator):
        self.c = c
        self.cfg = cfg
        self.iterator = iterator
        self.workers = [_Worker(i) for i in range(n_workers)]
        self.queue = []  # dispatched, not yet started: (task_index, callable)
        self.n_dispatched = 0
        self.exhausted = False
        self.results = {}
        self.errors = {}
        self.failed = False
        self.current = None  # worker holding the baton (None: caller thread)
        self.main_event = threading.Event()
        self.gap = 0
        self.inflight = 0
        self.max_inflight = 0
        self.harness_error = None
        self.copy_args = cfg.backend == "processes" and not getattr(c, "require_sharedmem", False)
        if self.copy_args:
            c.probe("process_backend_simulated")
        self.shutdown = False
        self.steps = 0
        self.pct_points = ()
        repo = _boot_prefixes()
        self.prefixes = repo
        self._new_gap()
        if cfg.mode == "pct":
            for w in self.workers:
                w.prio = 1000 + c.ch.draw("s", 1000, "pct-prio")
            self.pct_points = sorted(
                c.ch.draw("s", 3000, "pct-point") for _ in range(cfg.pct_depth)
            )

    # ------------------------------------------------------------ dispatch
    def _dispatch_one(self):
        if self.exhausted or self.failed:
            return False
        try:
            item = next(self.iterator)
        except StopIteration:
            self.exhausted = True
            return False
        idx = self.n_dispatched
        self.n_dispatched += 1
        if self.copy_args:
            func, args, kwargs = item
            try:
                args, kwargs = pickle.loads(pickle.dumps((args, kwargs)))
                item = (_process_copy_of_callable(func), args, kwargs)
            except Exception:  # noqa: BLE001 -- unpicklable argument: this call stays on threads
                self.copy_args = False
                self.c.probe("process_backend_fell_back_to_threads")
        self.queue.append((idx, item))
        return True

    # ------------------------------------------------------------ gaps
    def _new_gap(self):
        mode = self.cfg.mode
        ch = self.c.ch
        if mode == "rare":
            self.gap = ch.draw("s", 120, "gap")
        elif mode == "frequent":
            self.gap = ch.draw("s", 6, "gap")
        else:
            self.gap = 1 << 30

    # ------------------------------------------------------------ switching
    def _runnable(self, me):
        out = []
        for w in self.workers:
            if w is me or w.state == "done":
                continue
            if w.state == "running" or (w.state == "idle" and self.queue):
                out.append(w)
        return out

    def _switch_to(self, me, other, where):
        """Hands the baton from *me* (a worker or None for the caller) to
        *other* (a worker or None for the caller) and parks *me*."""
        self.c.log.ev(
            "switch", -1 if me is None else me.idx, -1 if other is None else other.idx, where
        )
        self.current = other
        my_event = self.main_event if me is None else me.event
        my_event.clear()
        (self.main_event if other is None else other.event).set()
        my_event.wait()

    def yield_point(self, force=False, where=None):
        me = self.current
        if me is None or threading.current_thread() is not me.thread:
            return  # caller thread, or a foreign thread: not schedulable here
        c = self.c
        self.steps += 1
        c.steps += 1
        if self.steps > c.step_cap:  # bounded per SimParallel call
            raise _ctx.StepCapExceeded("step cap %d exceeded in one Parallel call" % c.step_cap)
        mode = self.cfg.mode
        if mode == "rtc":
            return
        if mode == "pct":
            if self.pct_points and self.steps >= self.pct_points[0]:
                self.pct_points = self.pct_points[1:]
                me.prio = min(w.prio for w in self.workers) - 1
            cand = self._runnable(me)
            if not cand:
                return
            best = max(cand, key=lambda w: (w.prio, -w.idx))
            if best.prio > me.prio:
                c.probe("preempt_inside_task")
                self._switch_to(me, best, where or "pct")
            return
        if not force:
            if self.gap > 0:
                self.gap -= 1
                return
        elif self.gap > 0 and mode == "rare" and not c.ch.boolean("s", 0.5, "seam-yield"):
            return
        cand = self._runnable(me)
        self._new_gap()
        if not cand:
            return
        k = c.ch.draw("s", len(cand) + 1, "pick")
        if k == 0:
            return
        c.probe("preempt_inside_task")
        if self.inflight >= 2:
            c.probe("switch_with_two_tasks_in_flight")
        self._switch_to(me, cand[k - 1], where or "pp")

    def _pick_next(self, me):
        """Called when *me* has nothing to do right now (task boundary)."""
        cand = self._runnable(None)
        if not cand:
            return None
        if self.cfg.mode == "pct":
            return max(cand, key=lambda w: (w.prio, -w.idx))
        return cand[self.c.ch.draw("s", len(cand), "next")]

    # ------------------------------------------------------------ tracing
    def _global_trace(self, frame, event, arg):
        if event != "call":
            return None
        fn = frame.f_code.co_filename
        if fn.startswith(self.prefixes) or fn in _PEER_FILES:
            if self.cfg.gran == "opcode":
                frame.f_trace_opcodes = True
                frame.f_trace_lines = False
                sys.settrace(self._global_trace)  # re-arm (CPython 3.12 quirk)
            return self._local_trace
        return None

    def _local_trace(self, frame, event, arg):
        if event == "line" or event == "opcode":
            if self.cfg.gran == "opcode":
                sys.settrace(self._global_trace)  # re-arm (CPython 3.12 quirk)
            self.yield_point(where=frame.f_lineno)
        return self._local_trace

    # ------------------------------------------------------------ worker body
    def _worker_main(self, w):
        c = self.c
        w.event.wait()
        if self.shutdown:
            w.state = "done"
            return
        try:
            while True:
                # task boundary: take the next queued task if any
                if not self.queue or self.failed:
                    break
                idx, (func, args, kwargs) = self.queue.pop(0)
                w.state = "running"
                w.task = idx
                self.inflight += 1
                self.max_inflight = max(self.max_inflight, self.inflight)
                c.tls.task = idx
                c.log.ev("task", "start", idx, w.idx)
                # decision point at task start (every mode)
                nxt = self._pick_next_at_start(w)
                if nxt is not None and nxt is not w:
                    self._switch_to(w, nxt, "task-start")
                try:
                    if self.cfg.gran != "task":
                        sys.settrace(self._global_trace)
                    try:
                        res = func(*args, **kwargs)
                    finally:
                        sys.settrace(None)
                    if self.copy_args:
                        res = pickle.loads(pickle.dumps(res))
                    self.results[idx] = res
                except BaseException as e:  # noqa: BLE001
                    self.errors[idx] = e
                    self.failed = True
                    if isinstance(e, (_ctx.StepCapExceeded, _ctx.HarnessError)):
                        pass
                c.log.ev("task", "end", idx, w.idx, idx in self.errors)
                self.inflight -= 1
                w.state = "idle"
                w.task = None
                c.tls.task = -1
                # completion callback: dispatch one more item
                self._dispatch_one()
        except BaseException as e:  # noqa: BLE001
            self.harness_error = e
            self.failed = True
        finally:
            sys.settrace(None)
            w.state = "done"
            nxt = self._pick_next(w)
            self.c.log.ev("switch", w.idx, -1 if nxt is None else nxt.idx, "exit")
            self.current = nxt
            (self.main_event if nxt is None else nxt.event).set()

    def _pick_next_at_start(self, w):
        cand = self._runnable(w)
        if not cand:
            return None
        if self.cfg.mode == "pct":
            best = max(cand + [w], key=lambda x: (x.prio, -x.idx))
            return best
        k = self.c.ch.draw("s", len(cand) + 1, "start-pick")
        return None if k == 0 else cand[k - 1]

    # ------------------------------------------------------------ entry
    def run(self):
        c = self.c
        nw = len(self.workers)
        for _ in range(2 * nw):  # joblib's pre_dispatch='2*n_jobs' in the caller thread
            if not self._dispatch_one():
                break
        if not self.queue:
            return []
        for w in self.workers:
            w.thread = threading.Thread(target=self._worker_main, args=(w,), daemon=True)
            w.thread.start()
        c.sched = self
        try:
            first = self._pick_next(None)
            self._switch_to(None, first, "begin")
        finally:
            c.sched = None
            # an unexhausted task generator (dispatch stops after a failure)
            # must not be finalised later by the garbage collector inside some
            # traced thread: close it here, in the caller's thread
            close = getattr(self.iterator, "close", None)
            if close is not None:
                try:
                    close()
                except Exception:  # noqa: BLE001
                    pass
            self.queue[:] = []
        # every worker has exited when the caller gets the baton back, except
        # workers that never ran: release them
        self.shutdown = True
        for w in self.workers:
            if w.state != "done":
                if w.state == "running":
                    raise _ctx.HarnessError("caller resumed while a task is in flight")
                w.event.set()
        for w in self.workers:
            w.thread.join(30)
            if w.thread.is_alive():
                raise _ctx.HarnessError("worker thread did not terminate")
        if self.harness_error is not None:
            raise _ctx.HarnessError("scheduler failure: %r" % (self.harness_error,))
        c.probes["max_tasks_in_flight_%d" % min(self.max_inflight, 3)] += 1
        if self.errors:
            raise self.errors[min(self.errors)]
        return [self.results[i] for i in range(self.n_dispatched)]


_WARM = False


def warm_opcode_tracing():
    """CPython 3.12 enables per-opcode events interpreter-wide the first time a
    traced frame asks for them and ``sys.settrace`` is called again; before
    that, the first frame gets none.  Do it once at start so that every run,
    including the first of a process, sees the same events."""
    global _WARM
    if _WARM:
        return
    _WARM = True

    def work(n):
        s = 0
        for i in range(n):
            s += i
        return s

    def g(frame, event, arg):
        if event == "call" and frame.f_code is work.__code__:
            frame.f_trace_opcodes = True
            frame.f_trace_lines = False
            sys.settrace(g)
            return loc
        return None

    def loc(frame, event, arg):
        sys.settrace(g)
        return loc

    for _ in range(2):
        t = threading.Thread(target=lambda: (sys.settrace(g), work(3), sys.settrace(None)))
        t.start()
        t.join()
    sys.settrace(g)
    work(3)
    sys.settrace(None)


def _boot_prefixes():
    from . import boot

    return boot.traced_prefixes()


class SimParallel:
    """Drop-in for ``joblib.Parallel`` as used by mlinsights."""

    def __init__(self, n_jobs=None, verbose=0, prefer=None, require=None, **kwargs):
        self.n_jobs = n_jobs
        self.verbose = verbose
        self.prefer = prefer
        self.require = require

    def __call__(self, iterable):
        c = _ctx.current()
        if c is not None and c.real_parallel:
            import joblib

            return joblib.Parallel(n_jobs=self.n_jobs, prefer=self.prefer)(iterable)
        iterator = iter(iterable)
        if c is None or self.n_jobs in (None, 1) or c.sched is not None or getattr(c, "force_sequential", False):
            # sequential, in the caller's thread, in order -- as joblib does
            out = []
            for i, (func, args, kwargs) in enumerate(iterator):
                if c is not None:
                    prev = c.task_index()
                    c.tls.task = i
                    try:
                        out.append(func(*args, **kwargs))
                    finally:
                        c.tls.task = prev
                else:
                    out.append(func(*args, **kwargs))
            return out
        c.parallel_calls += 1
        if c.sched_cfg is None:
            c.sched_cfg = draw_config(c)
        cfg = c.sched_cfg
        n_jobs = self.n_jobs
        if n_jobs < 0:
            n_jobs = cfg.wide
        n_jobs = max(1, min(int(n_jobs), 8))
        warm_opcode_tracing()
        c.require_sharedmem = self.require == "sharedmem"
        sch = Scheduler(c, cfg, n_jobs, iterator)
        return sch.run()
