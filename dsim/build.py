"""Build the Cython extensions of the repository's *current working tree*.

The .pyx/.pxd files are hashed together with the numpy / scikit-learn / Cython /
python versions; on a miss they are cythonized and compiled from a temporary
copy into ``/verif/.cache/ext/<hash>/`` (only the ``.so`` files are kept).
Python sources are never copied: they are imported straight from the repo.
"""
import hashlib
import os
import shutil
import subprocess
import sys
import tempfile

VERIF_ROOT = os.path.dirname(os.path.dirname(os.path.abspath(__file__)))
CACHE_ROOT = os.environ.get("VERIF_CACHE", os.path.join(VERIF_ROOT, ".cache", "ext"))

EXT_DIRS = ("mlinsights/mlmodel", "mlinsights/mltree")


def repo_root():
    return os.path.abspath(os.environ.get("VERIF_REPO", "/repo"))


def _cython_sources(root):
    out = []
    for d in EXT_DIRS:
        full = os.path.join(root, d)
        if not os.path.isdir(full):
            continue
        for name in sorted(os.listdir(full)):
            if name.endswith((".pyx", ".pxd")):
                out.append(os.path.join(d, name))
    return out


def tree_hash(root=None):
    root = root or repo_root()
    import numpy
    import sklearn
    import Cython

    h = hashlib.sha256()
    h.update(
        repr(
            (sys.version_info[:3], numpy.__version__, sklearn.__version__, Cython.__version__)
        ).encode()
    )
    for rel in _cython_sources(root):
        h.update(rel.encode())
        with open(os.path.join(root, rel), "rb") as f:
            h.update(hashlib.sha256(f.read()).digest())
    return h.hexdigest()[:20]


_BUILD_SCRIPT = r"""
import sys, os
from setuptools import setup, Extension
from Cython.Build import cythonize
import numpy
exts = []
for d in %(dirs)r:
    for name in sorted(os.listdir(d)):
        if name.endswith('.pyx'):
            mod = (d + '/' + name[:-4]).replace('/', '.')
            exts.append(Extension(mod, [d + '/' + name], include_dirs=[numpy.get_include()],
                        define_macros=[('NPY_NO_DEPRECATED_API', 'NPY_1_7_API_VERSION')],
                        extra_compile_args=['-O1', '-w']))
setup(name='x', ext_modules=cythonize(exts, language_level=3, quiet=True, nthreads=0,
      compiler_directives={'boundscheck': False, 'wraparound': False, 'cdivision': True}),
      script_args=['build_ext', '--inplace', '-j', '8'])
"""


def ensure_built(root=None, verbose=False):
    """Returns the directory that holds the compiled extension modules for the
    current content of the repository's .pyx/.pxd files; builds on a miss."""
    root = root or repo_root()
    key = tree_hash(root)
    dest = os.path.join(CACHE_ROOT, key)
    marker = os.path.join(dest, "OK")
    if os.path.exists(marker):
        return dest
    os.makedirs(CACHE_ROOT, exist_ok=True)
    tmp = tempfile.mkdtemp(prefix="mlinsights-ext-")
    try:
        for rel in _cython_sources(root):
            os.makedirs(os.path.join(tmp, os.path.dirname(rel)), exist_ok=True)
            shutil.copy(os.path.join(root, rel), os.path.join(tmp, rel))
        # package markers so that relative cimports resolve
        for d in ("mlinsights",) + EXT_DIRS:
            p = os.path.join(tmp, d, "__init__.py")
            os.makedirs(os.path.dirname(p), exist_ok=True)
            open(p, "a").close()
        script = os.path.join(tmp, "_build_ext.py")
        with open(script, "w") as f:
            f.write(_BUILD_SCRIPT % {"dirs": list(EXT_DIRS)})
        env = dict(os.environ)
        env.pop("PYTHONPATH", None)
        proc = subprocess.run(
            [sys.executable, script],
            cwd=tmp,
            env=env,
            stdout=subprocess.PIPE,
            stderr=subprocess.STDOUT,
            text=True,
        )
        if proc.returncode != 0:
            raise RuntimeError("extension build failed:\n" + proc.stdout[-6000:])
        stage = dest + ".tmp%d" % os.getpid()
        shutil.rmtree(stage, ignore_errors=True)
        n = 0
        for d in EXT_DIRS:
            os.makedirs(os.path.join(stage, d), exist_ok=True)
            for name in os.listdir(os.path.join(tmp, d)):
                if name.endswith(".so"):
                    shutil.copy(os.path.join(tmp, d, name), os.path.join(stage, d, name))
                    n += 1
        if n == 0:
            raise RuntimeError("extension build produced no module:\n" + proc.stdout[-3000:])
        open(os.path.join(stage, "OK"), "w").close()
        try:
            os.rename(stage, dest)
        except OSError:
            shutil.rmtree(stage, ignore_errors=True)  # somebody else won the race
        if verbose:
            print("built %d extension modules into %s" % (n, dest))
        return dest
    finally:
        shutil.rmtree(tmp, ignore_errors=True)


def prune(keep):
    """Removes cache entries other than *keep* (a directory name)."""
    if not os.path.isdir(CACHE_ROOT):
        return
    for name in os.listdir(CACHE_ROOT):
        if name != os.path.basename(keep):
            shutil.rmtree(os.path.join(CACHE_ROOT, name), ignore_errors=True)


if __name__ == "__main__":
    print(ensure_built(verbose=True))
