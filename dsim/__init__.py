"""Deterministic simulation harness for mlinsights (see /verif/DESIGN.md)."""
