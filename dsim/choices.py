"""One integer decides everything: the choice streams.

``Choices(seed)`` owns four independent named streams of integer draws:

* ``w`` workload (class, configuration, data shape, operation sequence),
* ``f`` faults (which site fires, which invalid-data kind),
* ``s`` schedule (which worker runs next, distance to the next pre-emption),
* ``r`` entropy (what the RNG / OS-entropy seam returns).

In generation mode stream *x* is ``random.Random(sha256(seed, x))`` and every
drawn integer is appended to a per-stream record.  In replay mode the draws are
read back from a record; an exhausted stream yields 0 and an out-of-range entry
is reduced modulo *n*, so that a shortened or edited record is still a valid
execution (this is what the minimiser relies on).

Nothing here reads a clock or any other source of entropy.
"""
import hashlib
import random

STREAMS = ("w", "f", "s", "r")


def derive_seed(*parts):
    h = hashlib.sha256(":".join(str(p) for p in parts).encode()).digest()
    return int.from_bytes(h[:8], "big")


class Choices:
    def __init__(self, seed, record=None):
        self.seed = int(seed)
        self.replay = record is not None
        self.src = {s: list((record or {}).get(s, [])) for s in STREAMS}
        self.pos = {s: 0 for s in STREAMS}
        self.rec = {s: [] for s in STREAMS}
        self.rng = {s: random.Random(derive_seed(self.seed, s)) for s in STREAMS}
        self.count = {s: 0 for s in STREAMS}
        self.listener = None  # optional callable(stream, n, value, label)
        self._tape = {}  # stream -> list being recorded
        self._play = {}  # stream -> [list, position]

    # -- primitive -----------------------------------------------------
    def draw(self, stream, n, label=None):
        """Returns an integer in [0, n).  ``n <= 1`` consumes nothing."""
        n = int(n)
        if n <= 1:
            return 0
        pl = self._play.get(stream)
        if pl is not None:
            # played back from a tape: neither recorded nor consumed from the
            # source, in generation and in replay mode alike
            tape, pos = pl
            v = int(tape[pos]) % n if pos < len(tape) else 0
            pl[1] = pos + 1
            if self.listener is not None:
                self.listener(stream, n, v, label)
            return v
        if self.replay:
            p = self.pos[stream]
            src = self.src[stream]
            if p < len(src):
                v = int(src[p]) % n
            else:
                v = 0
            self.pos[stream] = p + 1
        else:
            v = self.rng[stream].randrange(n)
        self.rec[stream].append(v)
        self.count[stream] += 1
        if stream in self._tape:
            self._tape[stream].append(v)
        if self.listener is not None:
            self.listener(stream, n, v, label)
        return v

    # -- helpers -------------------------------------------------------
    def integer(self, stream, lo, hi, label=None):
        """Integer in [lo, hi] (inclusive); 0 maps to lo."""
        return lo + self.draw(stream, hi - lo + 1, label)

    def choice(self, stream, seq, label=None):
        return seq[self.draw(stream, len(seq), label)]

    def boolean(self, stream, p=0.5, label=None):
        """True with probability p; the value 0 of the stream means False."""
        k = int(round(p * 1000))
        if k <= 0:
            return False
        if k >= 1000:
            return True
        return self.draw(stream, 1000, label) >= 1000 - k

    def weighted(self, stream, items, label=None):
        """items: list of (value, integer weight); first item is the simplest."""
        total = sum(w for _, w in items)
        v = self.draw(stream, total, label)
        for it, w in items:
            if v < w:
                return it
            v -= w
        return items[-1][0]

    def subseed(self, stream, label=None):
        """A 31-bit integer to seed a private numpy RandomState (bulk data)."""
        return self.draw(stream, 2**31 - 1, label)

    # -- tapes: repeat a stretch of decisions (e.g. the same thread schedule
    #    for two executions that are to be compared)
    def start_tape(self, stream):
        self._tape[stream] = []

    def stop_tape(self, stream):
        return self._tape.pop(stream, [])

    def play_tape(self, stream, tape):
        self._play[stream] = [list(tape), 0]

    def stop_play(self, stream):
        self._play.pop(stream, None)

    def record(self):
        return {s: list(self.rec[s]) for s in STREAMS}
