"""Foreign-call fault seam: the k-th call that leaves the library raises.

While an operation of the library runs in the caller's thread, every Python
level call from a frame of ``mlinsights`` into code that is *not* mlinsights
(scikit-learn's validation helpers and parent classes, numpy's Python level
functions, an inner estimator, joblib's stand-in, the entropy proxies) is a
*boundary crossing*.  Crossings are numbered in the order they happen -- a
deterministic function of the code path -- and the fault plan names one of
them; at that crossing the callee "raises" before doing anything: a
``ValueError`` (what validation raises), a ``RuntimeError``, a ``MemoryError``
(a failing allocation) or an interruption that is not an ``Exception`` (what
Ctrl-C in a notebook delivers while scikit-learn is busy).

This is what "every point at which a fit can fail" means for code that has no
inner estimator to make fail: the parent class's ``fit``, ``check_array``,
``clone`` ... are the places where real failures originate.  The fault is
raised from a ``sys.settrace`` 'call' handler, which CPython turns into an
exception in the callee's frame; nothing of the library is patched.

Only the caller's thread is traced (``sys.settrace`` is per thread): tasks that
``SimParallel`` runs on its own threads are covered by the peer fault sites.
"""
import os
import sys

from . import boot as _boot
from . import peers as _peers


class InjectedMemoryFault(_peers.InjectedFault, MemoryError):
    """A failing allocation inside a callee."""


KINDS = dict(_peers.FAULT_KINDS)
KINDS["memory"] = InjectedMemoryFault


class ForeignCallFaults:
    """Context manager.  ``fire_at=None`` only records the crossings."""

    def __init__(self, c, fire_at=None, kind="runtime"):
        self.c = c
        self.fire_at = fire_at
        self.kind = kind
        self.count = 0
        self.seen = []
        self.fired = None
        self.importing = 0
        self.prefix = os.path.join(_boot.REPO, "mlinsights") + os.sep
        self._prev = None

    def _import_trace(self, frame, event, arg):
        if event == "return":
            self.importing -= 1
        return self._import_trace

    def _trace(self, frame, event, arg):
        if event != "call":
            return None
        code = frame.f_code
        if code.co_filename.startswith("<frozen importlib"):
            # What a first import executes (module bodies, class bodies) happens
            # once per process: it is not part of the operation and is never a
            # crossing, otherwise the numbering would depend on what ran before
            # in this process.
            if code.co_name == "_find_and_load":
                self.importing += 1
                return self._import_trace
            return None
        if self.importing:
            return None
        if code.co_filename.startswith(self.prefix):
            return None
        back = frame.f_back
        if back is None or not back.f_code.co_filename.startswith(self.prefix):
            return None
        k = self.count
        self.count = k + 1
        name = (os.path.basename(back.f_code.co_filename), back.f_code.co_name, code.co_name)
        if len(self.seen) < 4096:
            self.seen.append(name)
        if k == self.fire_at and self.fired is None:
            self.fired = name
            c = self.c
            c.faults_fired["foreign_call_raise:" + self.kind] += 1
            c.log.ev("fault", "foreign-call", k, name, self.kind)
            raise KINDS[self.kind]("injected fault at boundary crossing %d: %s:%s -> %s" % ((k,) + name))
        return None

    def __enter__(self):
        self._prev = sys.gettrace()
        sys.settrace(self._trace)
        return self

    def __exit__(self, *exc):
        sys.settrace(self._prev)
        self.c.log.ev("boundary", self.count, self.fired)
        return False
