#!/usr/bin/env python3
"""Developer helper: execute one run index of a property under two
PYTHONHASHSEED values and show where the event logs diverge.
usage: tools/trace_run.py C02 45 [tier] [seed]"""
import json, os, sys
sys.path.insert(0, os.path.dirname(os.path.dirname(os.path.abspath(__file__))))
from dsim import runner

prop, index = sys.argv[1], int(sys.argv[2])
tier = sys.argv[3] if len(sys.argv) > 3 else "quick"
seed = int(sys.argv[4]) if len(sys.argv) > 4 else 0
logs = []
for hs in (11, 22):
    w = runner.Worker(0, hs)
    w.wait_ready()
    w.send({"cmd": "replay", "prop": prop, "tier": tier, "index": index, "seed": runner.derive(seed, prop, index), "record": None})
    res = w.recv()
    w.close()
    logs.append(res)
    print(hs, res["dd"], res["rd"], [v["signature"] for v in res["viol"]], res.get("error", "")[-800:])
a, b = logs[0]["trace"], logs[1]["trace"]
for i, (x, y) in enumerate(zip(a, b)):
    if x != y:
        for k in range(max(0, i - 6), min(len(a), i + 4)):
            print(k, "A", a[k])
            if k < len(b):
                print(k, "B", b[k])
        break
else:
    print("no difference in the first", min(len(a), len(b)), "events; lengths", len(a), len(b))
if "-v" in sys.argv:
    for e in a:
        print(e)
