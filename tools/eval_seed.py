#!/usr/bin/env python3
"""Confirms a seeded defect produced by a sub-agent and runs the checks on it.

usage: tools/eval_seed.py <worktree> <SEED_DIR> <seed-id> <target-prop> [props to run ...]

1. at HEAD the demo passes; with the patch applied the demo fails and the
   baseline test command still reports 46 passed;
2. every listed check (default: all claimed ones) is run with VERIF_REPO=<patched
   worktree>, quick tier; exit codes are recorded;
3. patch.diff, demo.py, NOTES.md and meta.json are stored in /verif/seeded/<seed-id>/;
4. the worktree's tracked files are reverted.
"""
import json
import os
import re
import shutil
import subprocess
import sys
import time

ROOT = os.path.dirname(os.path.dirname(os.path.abspath(__file__)))
PY = "/venv/bin/python"
ALL = ["C01", "C02", "C03", "C04", "C07", "C08", "C13", "C15", "C17", "C18"]


def sh(cmd, cwd, env=None, timeout=1800):
    p = subprocess.run(cmd, cwd=cwd, env=env, stdout=subprocess.PIPE, stderr=subprocess.STDOUT, text=True, timeout=timeout)
    return p.returncode, p.stdout


def main():
    wt, sdir, sid, target = sys.argv[1:5]
    props = sys.argv[5:] or ALL
    seed = os.path.join(wt, sdir)
    patch = os.path.join(seed, "patch.diff")
    demo = os.path.join(seed, "demo.py")
    meta = {"id": sid, "breaks_property": target, "worktree": wt, "ran": {}}
    sh(["git", "checkout", "--", "."], wt)
    denv = dict(os.environ, PYTHONPATH=wt)
    # baseline at HEAD in this worktree (it holds compiled modules, so more
    # test modules import than in /repo: the reference is "the same set")
    cache = os.path.join(wt, ".baseline_passed")
    if os.path.exists(cache):
        base_passed = int(open(cache).read())
    else:
        rcb, outb = sh([PY, "-m", "pytest", "-q", "-p", "no:cacheprovider", "--timeout=900", "--continue-on-collection-errors"], wt)
        mb = re.search(r"(\d+) passed", outb)
        base_passed = int(mb.group(1)) if mb else -1
        open(cache, "w").write(str(base_passed))
    meta["baseline_passed_at_head"] = base_passed
    rc0, out0 = sh([PY, demo], wt, env=denv)
    meta["demo_at_head_exit"] = rc0
    rc, out = sh(["git", "apply", patch], wt)
    if rc != 0:
        print("patch does not apply:", out)
        return 2
    try:
        rc1, out1 = sh([PY, demo], wt, env=denv)
        meta["demo_with_change_exit"] = rc1
        meta["demo_with_change_tail"] = out1[-600:]
        rct, outt = sh([PY, "-m", "pytest", "-q", "-p", "no:cacheprovider", "--timeout=900", "--continue-on-collection-errors"], wt)
        m = re.search(r"(\d+) passed", outt)
        meta["baseline_passed_with_change"] = int(m.group(1)) if m else None
        env = dict(os.environ, VERIF_REPO=wt)
        for p in props:
            t0 = time.time()
            rcp, outp = sh([os.path.join(ROOT, "check"), p, "--tier", "quick"], ROOT, env=env, timeout=3000)
            sigs = re.findall(r"signature: (\[.*\])", outp)
            meta["ran"][p] = {"exit": rcp, "signatures": sigs[:8], "wall_s": round(time.time() - t0, 1)}
            print("  %s exit=%d %s" % (p, rcp, sigs[:3]), flush=True)
    finally:
        sh(["git", "checkout", "--", "."], wt)
    meta["confirmed"] = bool(rc0 == 0 and meta.get("demo_with_change_exit", 0) != 0 and meta.get("baseline_passed_with_change") == base_passed and base_passed >= 46)
    meta["detected_by"] = [p for p, r in meta["ran"].items() if r["exit"] == 1]
    meta["harness_errors"] = [p for p, r in meta["ran"].items() if r["exit"] not in (0, 1)]
    dest = os.path.join(ROOT, "seeded", sid)
    os.makedirs(dest, exist_ok=True)
    for f in ("patch.diff", "demo.py", "NOTES.md"):
        if os.path.exists(os.path.join(seed, f)):
            shutil.copy(os.path.join(seed, f), os.path.join(dest, f))
    notes = os.path.join(seed, "NOTES.md")
    meta["needs_to_manifest"] = open(notes).read()[:1500] if os.path.exists(notes) else ""
    meta.pop("worktree")
    with open(os.path.join(dest, "meta.json"), "w") as f:
        json.dump(meta, f, indent=1)
    # replay files written against the patched tree are not findings
    rdir = os.path.join(ROOT, "replays")
    keep = os.path.join(dest, "replays")
    os.makedirs(keep, exist_ok=True)
    for f in os.listdir(rdir):
        if f.endswith(".json"):
            shutil.move(os.path.join(rdir, f), os.path.join(keep, f))
    print(json.dumps({k: meta[k] for k in ("id", "confirmed", "detected_by", "harness_errors", "demo_at_head_exit", "demo_with_change_exit", "baseline_passed_at_head", "baseline_passed_with_change")}))
    return 0


if __name__ == "__main__":
    sys.exit(main())
