#!/usr/bin/env python3
"""Developer helper: find which earlier run in the same worker changes the
digest of run <index>.  usage: tools/leak_hunt.py C02 45 [lo]"""
import json, os, sys
sys.path.insert(0, os.path.dirname(os.path.dirname(os.path.abspath(__file__))))
from dsim import runner
prop, index = sys.argv[1], int(sys.argv[2])
lo = int(sys.argv[3]) if len(sys.argv) > 3 else 0
def digests(indices):
    w = runner.Worker(0, 11); w.wait_ready()
    w.send({"cmd": "run", "prop": prop, "tier": "quick", "batch_seed": 0, "indices": indices, "sample": []})
    out = {}
    while True:
        m = w.recv()
        if m.get("done"): break
        out[m["i"]] = (m["dd"], m["rd"])
    w.close()
    return out
alone = digests([index])[index]
print("alone", alone)
for j in range(lo, index):
    d = digests([j, index])[index]
    if d != alone:
        print("predecessor", j, "changes it:", d)
