#!/usr/bin/env python3
"""Developer helper: does run <index> behave differently after a prefix of
earlier runs in the same worker?  usage: tools/leak_bisect.py C01 2497 2300"""
import json, os, sys
sys.path.insert(0, os.path.dirname(os.path.dirname(os.path.abspath(__file__))))
from dsim import runner
prop, index, lo = sys.argv[1], int(sys.argv[2]), int(sys.argv[3])
def run(indices):
    w = runner.Worker(0, 11); w.wait_ready()
    w.send({"cmd": "run", "prop": prop, "tier": "quick", "batch_seed": 0, "indices": indices, "sample": []})
    out = {}
    while True:
        m = w.recv()
        if m.get("done"): break
        out[m["i"]] = (m["dd"], m["rd"], [v["signature"][1:3] for v in m["viol"]])
    w.close()
    return out
alone = run([index])[index]
print("alone", alone)
pre = list(range(lo, index))
full = run(pre + [index])[index]
print("after", len(pre), "predecessors", full)
if full == alone:
    sys.exit(0)
while len(pre) > 1:
    half = pre[len(pre)//2:]
    r = run(half + [index])[index]
    if r != alone:
        pre = half
    else:
        r2 = run(pre[:len(pre)//2] + [index])[index]
        if r2 != alone:
            pre = pre[:len(pre)//2]
        else:
            print("needs a combination; remaining", pre[:10], "...")
            break
    print(len(pre), pre[:6])
print("culprit(s):", pre[:10])
