#!/bin/sh
# usage: tools/make_seed_worktree.sh <name>   -> /tmp/seed_<name>
# A scratch git worktree of /repo's HEAD for a sub-agent, with the compiled
# extension modules of the current tree and a shim that makes
# mlinsights.mlmodel importable under scikit-learn 1.9 (environment bootstrap
# only; nothing of the verification machinery is copied).
set -e
NAME="$1"
WT="/tmp/seed_$NAME"
git -C /repo worktree add --detach "$WT" HEAD >/dev/null 2>&1
EXT=$(cd /verif && /venv/bin/python -c "from dsim import build; print(build.ensure_built('/repo'))")
for d in mlinsights/mlmodel mlinsights/mltree; do cp "$EXT/$d"/*.so "$WT/$d/" 2>/dev/null || true; done
cat > "$WT/sandbox_shim.py" <<'PY'
"""Import this first: scikit-learn 1.9 no longer ships sklearn.utils._joblib,
which mlinsights.mlmodel imports.  (The compiled extension modules next to the
.pyx files were built for this tree; rebuild them with cythonize if you change
a .pyx file.)"""
import sys, types, warnings
import joblib
import sklearn.utils
warnings.filterwarnings("ignore")
m = types.ModuleType("sklearn.utils._joblib")
m.Parallel = joblib.Parallel
m.delayed = joblib.delayed
sys.modules["sklearn.utils._joblib"] = m
PY
echo "$WT"
