#!/usr/bin/env python3
"""Collects seed evaluations into /verif/seeded/<id>/meta.json.

The first evaluation of a seed is made against a snapshot of /verif taken
*before* the checks were strengthened for it ("first_evaluation"); when it was
missed, the evaluation against the strengthened checks is recorded as
"after_strengthening" in the same meta.json.
usage: tools/merge_seeds.py [extra seeded dir ...]
"""
import json
import os
import shutil
import sys

ROOT = os.path.dirname(os.path.dirname(os.path.abspath(__file__)))
dest_root = os.path.join(ROOT, "seeded")
for src_root in sys.argv[1:] + [dest_root]:  # NB: run once per source dir (copies overwrite meta.json)
    if not os.path.isdir(src_root):
        continue
    for name in sorted(os.listdir(src_root)):
        src = os.path.join(src_root, name)
        if not os.path.isfile(os.path.join(src, "meta.json")):
            continue
        base = name[:-6] if name.endswith(".after") else name
        dest = os.path.join(dest_root, base)
        os.makedirs(dest, exist_ok=True)
        meta = json.load(open(os.path.join(src, "meta.json")))
        if name.endswith(".after"):
            target = os.path.join(dest, "meta.json")
            if not os.path.exists(target):
                continue
            m = json.load(open(target))
            m["after_strengthening"] = {"detected_by": meta["detected_by"], "ran": meta["ran"], "harness_errors": meta["harness_errors"]}
            json.dump(m, open(target, "w"), indent=1)
            rep = os.path.join(src, "replays")
            if os.path.isdir(rep):
                os.makedirs(os.path.join(dest, "replays_after_strengthening"), exist_ok=True)
                for f in os.listdir(rep):
                    shutil.copy(os.path.join(rep, f), os.path.join(dest, "replays_after_strengthening", f))
            if os.path.abspath(src_root) == os.path.abspath(dest_root):
                shutil.rmtree(src)
        elif os.path.abspath(src) != os.path.abspath(dest):
            for f in os.listdir(src):
                s, d = os.path.join(src, f), os.path.join(dest, f)
                if os.path.isdir(s):
                    shutil.copytree(s, d, dirs_exist_ok=True)
                else:
                    shutil.copy(s, d)
rows = []
for name in sorted(os.listdir(dest_root)):
    p = os.path.join(dest_root, name, "meta.json")
    if os.path.exists(p):
        m = json.load(open(p))
        rows.append((name, m["breaks_property"], m["confirmed"], m["detected_by"], (m.get("after_strengthening") or {}).get("detected_by")))
for r in rows:
    print("%-8s breaks %s confirmed=%s first=%s after=%s" % r)
