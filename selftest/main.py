"""Self-tests of the machinery (not deciding steps):

* ``selftest-determinism [--tier quick|thorough]`` -- every run of a sample of
  run indices per property is executed twice, in two pools of worker
  interpreters that differ in PYTHONHASHSEED, worker count and chunking; the
  decision digest and the result digest must agree.
* ``selftest-fidelity`` -- the SimParallel stub against the real joblib
  threading backend on fault-free scenarios.
* ``selftest-mutants`` -- sensitivity: small source mutations applied to a
  scratch copy of the repository; the target check must report a violation.
"""
import json
import os
import shutil
import subprocess
import sys
import tempfile
import time

from dsim import runner
from props import plans

ROOT = runner.ROOT


def determinism(seed, jobs, tier, props=None):
    props = props or sorted(plans.PLANS)
    per = {"quick": 400, "thorough": 5000}[tier]
    bad = 0
    if runner.ensure_build() is None:
        return 2
    for prop in props:
        total = plans.PLANS[prop]["quick" if tier == "quick" else "thorough"]
        idx = sorted(set(runner.derive(seed, prop, "dsel", k) % total for k in range(per)))
        t0 = time.time()
        a, b = runner.Aggregate(), runner.Aggregate()
        deadline = time.time() + 3600
        pa = runner.Pool(jobs, 101)
        try:
            errs = pa.map_runs(prop, tier, seed, idx, set(), a.add, deadline, chunk=8)
        finally:
            pa.close()
        pb = runner.Pool(max(2, jobs // 2 - 1), 202)
        try:
            errs += pb.map_runs(prop, tier, seed, list(reversed(idx)), set(), b.add, deadline, chunk=3)
        finally:
            pb.close()
        if errs or a.errors or b.errors:
            print("HARNESS-ERROR %s: %s" % (prop, (errs or [(a.errors or b.errors)[0]["error"][-600:]])[0]))
            return 2
        mism = []
        for i in idx:
            da, db = a.digests.get(i), b.digests.get(i)
            if da != db and i not in a.recheck:
                mism.append((i, "decision" if da[0] != db[0] else "result"))
        bad += len(mism)
        print("%s: %d runs executed twice (PYTHONHASHSEED 101/202, %d vs %d workers, chunks 8 vs 3, reversed order): %d mismatches %s [%.0fs]" % (prop, len(idx), jobs, max(2, jobs // 2 - 1), len(mism), mism[:5], time.time() - t0), flush=True)
    return 0 if bad == 0 else 2


def fidelity(seed, jobs):
    """Runs props/fidelity.py in worker interpreters."""
    if runner.ensure_build() is None:
        return 2
    agg = runner.Aggregate()
    pool = runner.Pool(min(jobs, 8), 303)
    try:
        errs = pool.map_runs("FIDELITY", "quick", seed, range(240), set(), agg.add, time.time() + 1200, chunk=4)
    finally:
        pool.close()
    if errs or agg.errors:
        print("HARNESS-ERROR fidelity: %s" % (errs or [agg.errors[0]["error"][-800:]])[0])
        return 2
    nviol = sum(len(r["viol"]) for r in agg.viol)
    for r in agg.viol[:5]:
        for v in r["viol"]:
            print("FIDELITY-MISMATCH", v["signature"], v["message"][:300])
    print("fidelity: %d scenarios executed under the real joblib threading backend; mismatches with the simulator: %d; probes %r" % (agg.n, nviol, agg.probes))
    return 0 if nviol == 0 else 2


def mutants(seed, jobs, only=None):
    from selftest.mutant_list import MUTANTS

    repo = os.environ.get("VERIF_REPO", "/repo")
    results = []
    for m in MUTANTS:
        if only and m["id"] not in only:
            continue
        tmp = tempfile.mkdtemp(prefix="mlinsights-mutant-")
        try:
            shutil.copytree(os.path.join(repo, "mlinsights"), os.path.join(tmp, "mlinsights"), ignore=shutil.ignore_patterns("__pycache__", "*.so"))
            path = os.path.join(tmp, m["file"])
            with open(path) as f:
                src = f.read()
            if m["old"] not in src:
                results.append((m["id"], "STALE", "pattern not found"))
                continue
            with open(path, "w") as f:
                f.write(src.replace(m["old"], m["new"], 1))
            env = dict(os.environ, VERIF_REPO=tmp)
            row = []
            for prop in m["expect"]:
                p = subprocess.run([os.path.join(ROOT, "check"), prop, "--tier", "quick", "--jobs", str(jobs)], env=env, stdout=subprocess.PIPE, stderr=subprocess.STDOUT, text=True)
                row.append("%s=exit%d" % (prop, p.returncode))
                ok = p.returncode == 1
                results.append((m["id"], "DETECTED" if ok else "MISSED", "%s exit %d" % (prop, p.returncode)))
                print("%-28s %-9s %s  (%s)" % (m["id"], "DETECTED" if ok else "MISSED", prop, m["what"]), flush=True)
        finally:
            shutil.rmtree(tmp, ignore_errors=True)
            # replay files written for the mutated tree are not findings
    for f in os.listdir(os.path.join(ROOT, "replays")):
        if f.endswith(".json"):
            os.unlink(os.path.join(ROOT, "replays", f))
    missed = [r for r in results if r[1] != "DETECTED"]
    print("mutants: %d checked, %d detected, %d missed/stale" % (len(results), len(results) - len(missed), len(missed)))
    # evidence files were rewritten against mutated trees: they must be
    # regenerated by running the checks against /repo
    print("NOTE: evidence/*.json now describe mutated trees; re-run the checks against /repo before committing evidence")
    return 0 if not missed else 2


def main(name, seed, jobs, tier):
    extra = [a for a in sys.argv[2:] if a.startswith("C") or a.startswith("M")]
    if name == "selftest-determinism":
        return determinism(seed, jobs, tier, [a for a in extra if a in plans.PLANS] or None)
    if name == "selftest-fidelity":
        return fidelity(seed, jobs)
    if name == "selftest-mutants":
        return mutants(seed, jobs, [a for a in extra if a.startswith("M")] or None)
    print("unknown self-test", name)
    return 2
